"""Result cards of long real competitions (copied from the library's own test data and documentation), used by the
single-deviation probing of C02/C03: columns = bib, then one attempt string per height."""
ESAA_2015 = dict(heights=["1.81", "1.86", "1.91", "1.97", "2.00", "2.03", "2.06", "2.09", "2.12", "2.12", "2.10", "2.12", "2.10", "2.12"], cards=[
    ('85', ["o", "o", "o", "xo", "xxx"]),
    ('77', ["xxx"]),
    ('53', ["", "", "", "o", "o", "o", "o", "o", "xxx", "x", "o", "x", "o", "x"]),
    ('81', ["", "", "", "o", "o", "o", "o", "o", "xxx", "x", "o", "x", "o", "x"])])
WINNER_1066 = dict(heights=ESAA_2015['heights'] + ["2.11"], cards=[
    ('85', ["o", "o", "o", "xo", "xxx"]),
    ('77', ["xxx"]),
    ('53', ["", "", "", "o", "o", "o", "o", "o", "xxx", "x", "o", "x", "o", "x", "x"]),
    ('81', ["", "", "", "o", "o", "o", "o", "o", "xxx", "x", "o", "x", "o", "x", "o"])])
RIO_2016 = dict(heights=["2.20", "2.25", "2.29", "2.33", "2.36", "2.38", "2.40"], cards=[
    ('2182', ["o", "xo", "o", "xxx"]),
    ('2052', ["xo", "xxx"]),
    ('3026', ["-", "o", "-", "o", "-", "xx-", "x"]),
    ('2293', ["xo", "o", "xxx"]),
    ('2961', ["o", "o", "o", "xxx"]),
    ('3084', ["o", "xo", "o", "xxo", "xxx"]),
    ('2197', ["o", "o", "o", "o", "o", "o", "x"]),
    ('2456', ["o", "xo", "o", "o", "xxx"]),
    ('2878', ["o", "o", "o", "o", "o", "xxx"]),
    ('2062', ["o", "o", "xxx"]),
    ('2871', ["o", "xxo", "xxx"]),
    ('2294', ["o", "o", "o", "xxx"]),
    ('2076', ["o", "o", "o", "xxx"]),
    ('2297', ["o", "xxx"]),
    ('3032', ["o", "o", "xo", "o", "xxx"])])
NOR_2021_PV = dict(heights=["4.65", "4.75", "4.85", "4.95", "5.05", "4.95", "4.90", "4.85"], cards=[
    ('193', ["o", "xo", "o", "xxx", "-", "x", "x", "x"]),
    ('175', ["o", "xo", "o", "-", "xxx", "x", "x", "o"])])
CARDS = dict(ESAA_2015=ESAA_2015, WINNER_1066=WINNER_1066, RIO_2016=RIO_2016)
