#!/venv/bin/python
"""tools/viols.py <ID> [tier]: signature summary of the last failing run (from replays/<ID>/<tier>-all.json)"""
import json, sys, collections
pid = sys.argv[1]; tier = sys.argv[2] if len(sys.argv) > 2 else 'quick'
vs = json.load(open('/verif/replays/%s/%s-all.json' % (pid, tier)))
by = collections.OrderedDict()
for v in vs: by.setdefault(v['sig'], []).append(v)
for sig, L in by.items():
    print('%s  (x%d kept)' % (sig, len(L)))
    for v in L[:int(sys.argv[3]) if len(sys.argv) > 3 else 3]:
        print('     ', json.dumps(v['case'])[:230], '|', v['msg'][:200])
