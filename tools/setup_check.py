#!/venv/bin/python
"""setup_cmd: nothing is built (the checks are plain Python/JS driving /repo from outside);
this only verifies that the interpreter, node and the code under test are where the checks expect them."""
import os, sys, subprocess
HERE = os.path.dirname(os.path.dirname(os.path.abspath(__file__)))
sys.path.insert(0, HERE)
from vlib import common
a = common.bind_repo()
print('athlib', a.__version__, 'from', a.__file__)
try:
    print('node', subprocess.check_output(['node', '--version']).decode().strip())
except Exception as e:
    print('node missing:', e)
for d in ('evidence', 'replays'):
    os.makedirs(os.path.join(HERE, d), exist_ok=True)
print('setup ok')
