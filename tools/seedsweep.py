#!/venv/bin/python
"""tools/seedsweep.py [--tier quick] [--all-checks] [seed ids...]
Regression of the checks against the seeded changes, without touching /repo: for each seeded/<id>/ a scratch export of
/repo's HEAD is made under a temporary directory outside /repo and /verif, the patch applied, the pinned suite is NOT re-run
(keepseed.py did that when the seed was filed), the demonstration and the checks named in meta.json 'detected_by' (or, with
--all-checks, all nineteen) are run against it (VERIF_REPO), and the verdicts and signatures are written to
seeded/MATRIX.json.  The scratch tree is removed after each seed.  Exit 1 if a seed is not detected by any listed check."""
import sys, os, json, subprocess, tempfile, shutil, re, time

V = '/verif'
args = sys.argv[1:]
tier = 'quick'
allchecks = False
if '--tier' in args:
    i = args.index('--tier'); tier = args[i + 1]; del args[i:i + 2]
if '--all-checks' in args:
    allchecks = True; args.remove('--all-checks')
seeds = args or sorted(d for d in os.listdir(V + '/seeded') if os.path.isdir(V + '/seeded/' + d))
ALL = ['C%02d' % i for i in range(1, 20)]
mpath = V + '/seeded/MATRIX.json'
matrix = json.load(open(mpath)) if os.path.exists(mpath) else {}
missed = []
for sid in seeds:
    sd = V + '/seeded/' + sid
    meta = json.load(open(sd + '/meta.json'))
    tmp = tempfile.mkdtemp(prefix='seedsweep.', dir='/var/tmp')
    tree = tmp + '/tree'
    os.makedirs(tree)
    try:
        subprocess.run('git -C /repo archive HEAD | tar -x -C %s' % tree, shell=True, check=True)
        subprocess.run(['git', '-C', tree, 'apply', sd + '/patch.diff'], check=True)
        demo = [f for f in os.listdir(sd) if f.startswith('demo.py')]
        drc = None
        if demo:
            drc = subprocess.run(['/venv/bin/python', sd + '/demo.py'], env=dict(os.environ, ATHLIB_TREE=tree),
                                 capture_output=True, timeout=1800).returncode
        row = matrix.setdefault(sid, {})
        row['property'] = meta['property']
        row['demo_rc_with_change'] = drc
        res = row.setdefault(tier, {})
        for cid in (ALL if allchecks else meta['detected_by']):
            t0 = time.time()
            env = dict(os.environ, VERIF_REPO=tree, VERIF_EVIDENCE_DIR=tmp + '/ev', VERIF_REPLAY_DIR=tmp + '/rp')
            p = subprocess.run([V + '/check', cid, tier], env=env, capture_output=True, text=True, timeout=4 * 3600)
            out = p.stdout + p.stderr
            sig = ''
            m = re.search(r'violation signatures[^:]*: (.*)', out)
            if m:
                sig = m.group(1)[:300]
            h = re.search(r'HARNESS-ERROR.*', out)
            res[cid] = dict(exit=p.returncode, signatures=sig, harness_error=h.group(0)[:200] if h else None,
                            violation_lines=len(re.findall(r'^VIOLATION', out, re.M)), wall=round(time.time() - t0, 1))
            print('%-5s %s %s exit=%d %s' % (sid, cid, tier, p.returncode, sig[:140] or (h.group(0)[:140] if h else '')), flush=True)
        if not any(r['exit'] == 1 and r['violation_lines'] for c, r in res.items()):
            missed.append(sid)
    finally:
        shutil.rmtree(tmp, ignore_errors=True)
    json.dump(matrix, open(mpath, 'w'), indent=1, sort_keys=True)
print('seeds run: %d, not detected: %s' % (len(seeds), missed or 'none'))
sys.exit(1 if missed else 0)
