#!/venv/bin/python
"""Regenerates MANIFEST.json from the table below (keeps it schema-valid at all times)."""
import json, os, sys
HERE = os.path.dirname(os.path.dirname(os.path.abspath(__file__)))

ENGINES = [
    dict(name='grid', path='vlib/common.py', serves_properties=['C01', 'C05', 'C06', 'C09', 'C11', 'C13', 'C14', 'C15', 'C17'],
         kind_free_text='parallel exhaustive sweep of a finite input space against an exact-arithmetic reference model'),
    dict(name='hjmc', path='vlib/hjmc.py', serves_properties=['C02', 'C03', 'C08'],
         kind_free_text='explicit-state BFS over the real HighJumpCompetition object with a lock-step rule reference model'),
    dict(name='rxmc', path='vlib/rxmc.py', serves_properties=['C04', 'C07', 'C10', 'C12'],
         kind_free_text='regex syntax tree -> DFA over the induced partition of Unicode; product-automaton reachability; language enumerator'),
    dict(name='sched', path='vlib/sched.py', serves_properties=['C16'],
         kind_free_text='stateless exhaustive thread-interleaving explorer (sys.settrace baton scheduler, iterative pre-emption bounding)'),
    dict(name='hist', path='vlib/hist.py', serves_properties=['C19'],
         kind_free_text='call-history explorer over the validation caches with fresh-process reference outcomes'),
    dict(name='jsdiff', path='vlib/jsdiff.py', serves_properties=['C18'],
         kind_free_text='node harness evaluating js/src against the Python twin on shared exhaustive grids'),
]

# property -> (engine, level category, level text, level note, technique, design ref)
CHECKS = {}


def reg(pid, engine, cat, text, note, technique, ref):
    CHECKS[pid] = dict(engine=engine, cat=cat, text=text, note=note, technique=technique, ref=ref)


reg('C09', 'grid', 'exploration',
    'Complete enumeration of every scoring-table row x every integer target -10..1500; the two-sided inverse condition '
    '(needed mark reaches the target, next-worse 0.01 grid mark does not) is evaluated on the real functions for each. '
    'The space stated in the property is finite and is covered completely, so within it the verdict is exact.',
    'Trusts CPython float arithmetic to form the neighbouring grid mark; both sides of the oracle are the code under test '
    '(score correctness itself is C01).',
    'bounded exhaustive enumeration of the input grid (explicit enumeration, no sampling)', 'DESIGN.md 3/C09')


HJ_NOTE = ('Bounded: <=3-4 athletes, <=4 regular + <=3 jump-off heights (per-configuration bounds in the evidence). Trusts pickle round trips of the '
           'competition object, and the reference model vlib/hjmodel.py as the reading of the rules (interpretations I1-I6 in DESIGN.md).')
reg('C02', 'hjmc', 'model_checking',
    'Explicit-state BFS over the real HighJumpCompetition object: every reachable state within the bounds x every call of the alphabet (legal or not) is '
    'executed on a clone; refusals are checked for exception type and for leaving the complete reflected object state untouched, acceptances are '
    'compared in lock-step with a rule reference model (accept/refuse, cards, phase), state order is monitored on every transition. Read-only queries '
    'are transitions too (a query that changes the object yields a state of its own). The same universal checks are applied to every single '
    'deviating call at every prefix of three long real competitions, at every node of a long jump-off enumeration, and to BFS bounds re-run with '
    'the bar heights passed as floats / two- and three-place Decimals.',
    HJ_NOTE, 'explicit-state model checking of the implementation (BFS over real object states, lock-step reference model)', 'DESIGN.md 2.1, 3/C02')
reg('C03', 'hjmc', 'model_checking',
    'Places, bests and ranking shape recomputed from the result cards alone on every terminal state of the BFS, plus a round-structured exhaustive '
    'enumeration of complete competitions (every legal attempt string per athlete per height, every rule-conforming jump-off continuation with the '
    'bar raised, repeated or lowered), a tie-focused enumeration that reaches 3-4 athlete jump-offs of 2-3 heights, jump-offs of up to 6-8 rounds, '
    'every multiset of 4-7 result cards from a reduced card set (larger fields), and the single-deviation neighbourhood of three long real competitions; '
    'parts are repeated with float and Decimal centimetre heights.',
    HJ_NOTE, 'explicit-state model checking + exhaustive bounded enumeration of complete competitions on the real object', 'DESIGN.md 2.1, 3/C03')
reg('C08', 'hjmc', 'model_checking',
    'On every state reached by the BFS: the action log replays to an equal observable snapshot, the exported card re-imports to the same state, bests '
    'and places, and all reached states sharing a result card (exactly the order-preserving interleavings of each other) are required to have one '
    'observable snapshot and one set of accepted calls - order independence as a state-space invariant, no sampling of interleavings.',
    HJ_NOTE, 'explicit-state model checking of the implementation (state-graph invariant over all interleavings)', 'DESIGN.md 2.1, 3/C08')

reg('C16', 'sched', 'model_checking',
    'Stateless exhaustive exploration of thread interleavings of the real code: 2-3 real threads under a baton scheduler, a scheduling point before '
    'every source line executed inside athlib/ (sys.settrace), all schedules with at most 1-2 pre-emptions (iterative context bounding, per-scenario '
    'bound in the evidence), first-call and warmed-up starting states restored generically before every execution; each thread result is compared '
    'with the same call run alone. Violating schedules are replayed twice for determinism before being reported. Eight short scenarios are explored at '
    'bytecode granularity (sys.monitoring INSTRUCTION events). About 70 scenarios: same and different rows / events / graders / cache keys, junior scoring functions too.',
    'Line granularity except in the bytecode-granularity scenarios; bounded pre-emptions; the scenario list is a covering choice; CPython 3.12 sys.settrace delivers every athlib line; '
    'locks created at athlib import are replaced by baton-aware locks, Condition/Event unsupported.',
    'stateless model checking of the implementation (controlled scheduler, iterative pre-emption bounding)', 'DESIGN.md 2.3, 3/C16')

reg('C04', 'rxmc', 'model_checking',
    'The compiled patterns are turned (from their re syntax trees) into DFAs over the finite partition of all Unicode code points induced by the atoms '
    'the patterns use; for every union in the statement the product (composite x parts) is explored completely and every reachable state must have '
    'composite-accepting == OR(parts); for every pair of measurement kinds the product must have no jointly accepting state. This decides the property '
    'for all strings of any length. Every automaton is bound to the real pattern by replaying access strings, one-symbol extensions (every member of '
    'the small classes) and all strings up to length 3-4 over the class representatives through re. If a tree uses a regex construct the automata do not '
    'model, the check falls back to a bounded enumeration of ~4 million candidate strings judged by the real compiled patterns (recorded as not exhaustive).',
    'Trusts re._parser as the reading of the pattern text and CPython re to implement regular semantics for these constructs (checked: only literals, '
    'classes, branches, groups, greedy repeats, ^ and $; no flags).',
    'symbolic product-automaton reachability (explicit-state over a finite exact quotient) + conformance replay against re', 'DESIGN.md 2.2, 3/C04')
reg('C07', 'rxmc', 'exploration',
    'The language of the general event-code pattern is generated from its syntax tree: all structural skeletons (every alternative, optional group and '
    'repeat count) filled by a covering scheme (three bases, all single and pair deviations; triples, every Unicode blank and non-ASCII digits in thorough); '
    'each code and each of its accepted case/space/suffix/trailing-zero variants is normalised and checked for validity, absence of whitespace, idempotence, '
    'family preservation and agreement; ~9 million near-miss strings must be refused with ValueError.',
    'Structure exhaustive; digit values and combinations of more than two (three) simultaneously varied slots are covered by scheme, not exhaustively.',
    'bounded exhaustive enumeration of the accepted language from the regex syntax tree', 'DESIGN.md 2.2(c), 3/C07')
reg('C10', 'rxmc', 'exploration',
    'Same generated language as C07: every code goes through discipline_sort_key, its text form, the sorter, get_distance, get_duration_event_time, '
    'unit_name and event_code_to_kind (totality, family rank, relay distance); the ordering clauses are evaluated on all pairs of ~3000 canonical codes; '
    'the sorter on all lists of length <=3 over 12 disciplines including None and empty.',
    'Structure exhaustive, fills by covering scheme (as C07); family of a code for the rank clause is decided by the patterns themselves.',
    'bounded exhaustive enumeration of the accepted language + all pairs of a canonical subset', 'DESIGN.md 3/C10')

reg('C01', 'grid', 'exploration',
    'The whole 0.01 grid of every (gender, event) row (about 2.7 million marks, as float and as int where integral, incl. the veterans hurdles aliases and '
    'the ESAA 800 m option) is scored by the real function and compared with the World Athletics formula evaluated in exact arithmetic (Decimal; the '
    'power is decided in floating point outside a guard band and with 60-digit Decimal inside it); every age 1..114 on a window of each row and the '
    'masters bands on the full grid of the rows that have a WMA factor (2 bands quick, all 17 thorough); unknown pairs with and without age.',
    'Coefficients = decimal text of the table in the source; WMA factors read from the JSON by the check; glibc pow within 1e-9 relative.',
    'bounded exhaustive enumeration of the input grid against an exact-arithmetic reference model', 'DESIGN.md 2.5, 3/C01')
reg('C05', 'grid', 'exploration',
    'Every adjacent pair of marks on the 0.01 grid, for every table/event/gender/age of Tyrving, QuadKids, Sportshall, Bulgarian U16, Hungarian and the '
    'combined-events tables (with and without age bands), per input form: a better mark never scores less; results are ints within each system\'s bounds; '
    'Tyrving hand-timed text never scores more than the same figure timed electronically.',
    'Quick tier strides rows longer than 120 000 marks (stated in the evidence); thorough is the full grid.',
    'bounded exhaustive enumeration of adjacent input pairs (order relation on the whole grid)', 'DESIGN.md 2.5, 3/C05')
reg('C11', 'grid', 'exploration',
    'Every (system, table, event, age) of Tyrving, QuadKids, Sportshall and Bulgarian U16 x every mark of the 0.01 grid from well below to well above the '
    'tabulated range x every documented input form is scored by the public function and compared with an exact Fraction/Decimal evaluation of the table '
    'data written from the statement; plus the table clauses (each table ordered, every key a valid event code in normal form and reachable).',
    'Oracles read the table data (not the scoring code) from the modules; input forms per system as listed in the evidence assumptions.',
    'bounded exhaustive enumeration of the input grid against exact-arithmetic reference models', 'DESIGN.md 2.5, 3/C11')

reg('C06', 'grid', 'exploration',
    'round_up_str_num on every digit string I.F (|I|<=4, |F|<=7 over a 3-4 digit alphabet; all ten digits for |I|<=2, |F|<=3-4; with and without the '
    'point) x precision 0..5 against the exact Decimal ceiling of the 5-decimal truncation; format_seconds_as_time on the 0.001 s grid, around every '
    'whole minute up to 100 h and on floats with arithmetic residue x precision 0..3 (field ranges, decimals, never below the duration, less than one '
    'unit above, parses back); parse_hms on every 1-3 field string over a field set with both separators against the exact sexagesimal value, plus junk.',
    'Noise aside = truncation of the exact binary value to five decimals; value equality for the round-up helper.',
    'bounded exhaustive enumeration of input strings/durations against exact-arithmetic reference models', 'DESIGN.md 2.5, 3/C06')

reg('C13', 'grid', 'exploration',
    'Every meeting date of a four-year leap cycle (1461 days) x birth dates (thorough: every day of the preceding 110 years, ~58 million pairs per category; '
    'quick: +-2 days of every anniversary that can matter in each of 111 years) x {TF, XC} x vets x underage through calc_uka_age_group, against the rule '
    'text re-implemented on integer completed-years ages; plus definedness, ISO-string equality, ROAD dispatch, monotonicity in the birth date and the '
    'scope of the two options.',
    'TF rule-text equality asserted for meetings 1 Jan-30 Sep (as the property states); 29 Feb birthdays count on 28 Feb; XC cut-off = 31 Aug on or before the meeting.',
    'bounded exhaustive enumeration of date pairs against a rule-text reference model', 'DESIGN.md 2.5, 3/C13')

reg('C14', 'grid', 'exploration',
    'Every row of the 2015 and 2023 WMA tables and of the combined-events table x gender spellings x event letter case x every integer and half-integer '
    'age from the first covered column to 20 years past the last x a performance grid around the open best, through the public wrappers and through grader '
    'objects (fresh and reused, both call orders): factor equals an independent linear-interpolation lookup in the JSON, best equals the table, grade equals '
    '(best/factor)/time or mark/(best/factor), strictly monotone, exactly 1.0 for the open best at factor 1, identical across spellings.',
    'Oracle reads the JSON data files directly; combined-events table has no open-best column so only its factor is compared with the table.',
    'bounded exhaustive enumeration of the input grid against an independent table-lookup reference model', 'DESIGN.md 2.5, 3/C14')
reg('C15', 'grid', 'exploration',
    'Bare whole-metre codes from 20 m to 400 km (thorough: every metre; quick: every metre to 30 km, windows around every tabulated distance and mile multiple, '
    '1 km steps beyond) and road spellings 0.1K..400K / 0.1M..249M that are not themselves tabulated x gender x seven ages x both table years: factor inside '
    'the hull of the bracketing tabulated rows, best inside theirs and strictly increasing along the metre axis, no failure beyond either end.',
    'Distance of a spelling = get_distance; tabulated distances = km column; rows sharing a distance (track and road variants) all count as bracketing.',
    'bounded exhaustive enumeration of the distance axis (betweenness / monotonicity relations)', 'DESIGN.md 2.5, 3/C15')

reg('C17', 'grid', 'exploration',
    'The complete cross product {SP,DT,HT,JT,WT} x {M,F} x every age-group label the library can produce (U9..U20, SEN, V35..V130) and 17 other labels: the built '
    'code is a valid, already normalised throws code whose weight equals the implement table; consecutive masters bands never get heavier; every other code of '
    'the generated event-code language passes through unchanged; every key of every bundled scoring / age-grading table is accepted by check_event_code.',
    'Finite spaces enumerated completely; the pass-through clause uses the generated language of C07 (structure exhaustive, fills by covering scheme).',
    'bounded exhaustive enumeration of the configuration cross product', 'DESIGN.md 2.5, 3/C17')

reg('C19', 'hist', 'model_checking',
    'Call-history exploration over the two validation caches: the alphabet is every (schema x validator x expect_failure) and (sample document x own schema / metaschema x '
    'expect_failure) call (142 calls); reference outcome of each call = that single call in a fresh interpreter process (cwd=/repo and cwd=/, sockets stubbed to detect '
    'network use). From a restored pristine state all length-1 histories, ordered pairs (quick: those sharing a schema or document; thorough: all 20 164), all triples over '
    'calls sharing a cache key and saturated histories (19/20/21 distinct keys before and around every probe, incl. the expect_failure twin) are executed on the real '
    'functions; every call outcome must equal its fresh outcome. Bundled valid samples must validate and invalid ones must not. Further histories: derived '
    'validator classes, mismatched document/schema pairs, all triples over a reduced alphabet of 25 calls, a change of working directory between two calls, '
    'temporary documents created, validated and deleted in turn.',
    'Restoring captured athlib module state is taken as equivalent to a fresh process (checked on all length-1 histories); histories longer than 3 only in the saturated families.',
    'explicit enumeration of call histories on the real code against fresh-process reference outcomes', 'DESIGN.md 2.4, 3/C19')

reg('C18', 'jsdiff', 'exploration',
    'Differential enumeration: for each function pair the JavaScript sources declare to be ports (decimal round-up, duration formatting and parsing, hand-timing '
    'detection, normalisation of the scoring-table keys, Tyrving and QuadKids scoring) Python enumerates the same grids as C06 and C11, one node process per chunk '
    'evaluates /repo/js/src directly (CommonJS shim, no Babel) and every result pair is compared: numbers numerically, strings exactly, refusal vs refusal.',
    'Python is the reference (pinned to the tables by C06/C11); node 20 semantics; comma decimals and malformed inputs are outside the shared domain.',
    'bounded exhaustive differential enumeration (two implementations on one input grid)', 'DESIGN.md 2.6, 3/C18')

reg('C12', 'rxmc', 'exploration',
    'About 100 event codes (the first code of the generated event-code language per family vector x distance class x letter case x weight-specific, plus the customary '
    'names) x ~8 700 texts from a grammar of plausible and implausible entries (1-3 fields over a field set, decimals, both separators and decimal marks, over-range '
    'fields, junk) x gender x precision x {ValueError, custom class}: raises exactly the given class, or returns a string that satisfies the output clause of its kind '
    '(timed: field ranges and speed limits on get_distance; field: two decimals and the record limit; multi: integer below 10000) and is accepted unchanged when validated again.',
    'Kind of an event decided by the patterns; cross product of gender/precision/error class is full on the default gender and precision and single-class elsewhere.',
    'bounded exhaustive enumeration over an input grammar (codes from the regex language, texts from a field grammar)', 'DESIGN.md 3/C12')

ALL = ['C%02d' % i for i in range(1, 20)]
PENDING_REASON = 'check not yet built in this session (planned, see DESIGN.md section 7); not claimed until it runs clean'


# additions of round 8: parts that several checks share (appended to the level text of each)
CROSS = (' A cross-API call-order pass puts, per event code, every public function that takes one - refused calls and caller-built graders included - before the '
         'functions of this check (every ordered pair from a restored state; each answer against the same call made first); a saturation pass asks each probe call '
         'again after 65..1025 other distinct calls; the same calls are compared across interpreter / ambient modes (-O, -OO, DEBUG logging, directed decimal rounding, '
         'a line tracer).')
CONC = (' A concurrency pass runs two threads inside these functions under the interleaving explorer of C16 (all schedules at source-line granularity with at most '
        '2 pre-emptions), each answer against the same call made alone.')
for _pid in ('C01', 'C05', 'C07', 'C09', 'C10', 'C11', 'C12', 'C14', 'C15', 'C17'):
    CHECKS[_pid]['text'] += CROSS
for _pid in ('C02', 'C06', 'C07', 'C10', 'C12', 'C13', 'C17'):
    CHECKS[_pid]['text'] += CONC
CHECKS['C08']['text'] += (' Beyond the BFS bound: ALL jumping orders of two real result cards and of every synthetic competition over a reduced card set (explored as a '
                          'DAG of positions through the real object, states merged by complete internal snapshot), including jump-off rounds; and every order of the '
                          '15-athlete Rio final within 1 (thorough: 2) deviations of round-robin.')
CHECKS['C16']['text'] = CHECKS['C16']['text'].replace('at most 1-2 pre-emptions', 'at most 1-2 pre-emptions (3 for the shortest scenarios in the thorough tier)')


def main():
    man = dict(
        version=1,
        setup_cmd='/venv/bin/python tools/setup_check.py',
        hooks=dict(guard='ATHLIB_VERIF',
                   enable='no hooks are compiled in: checks drive /repo from outside (ATHLIB_VERIF=1 is exported by ./check for completeness)',
                   baseline_off_cmd='cd /repo && env -u ATHLIB_VERIF /venv/bin/python -m pytest -ra -q -p no:cacheprovider --timeout=900 --continue-on-collection-errors',
                   source_commits=[], add_only=True),
        engines=ENGINES,
        checks=[],
        notes='All checks: ./check <ID> <quick|thorough>; replay: ./check <ID> --replay <path>. Known findings: known_findings.json.',
        not_applicable=[],
    )
    for pid in ALL:
        c = CHECKS.get(pid)
        if not c:
            man['not_applicable'].append(dict(property_id=pid, reason=PENDING_REASON))
            continue
        man['checks'].append(dict(
            property_id=pid,
            quick_cmd='./check %s quick' % pid,
            thorough_cmd='./check %s thorough' % pid,
            evidence_file='/verif/evidence/%s.json' % pid,
            replay_cmd_template='./check %s --replay {path}' % pid,
            engine=c['engine'],
            level_claimed=dict(category=c['cat'], text=c['text'], design_ref=c['ref']),
            level_note=c['note'],
            technique=c['technique'],
        ))
    if not man['not_applicable']:
        del man['not_applicable']
    with open(os.path.join(HERE, 'MANIFEST.json'), 'w') as f:
        json.dump(man, f, indent=1)
        f.write('\n')
    print('MANIFEST.json: %d checks, %d not claimed' % (len(man['checks']), len(man.get('not_applicable', []))))


if __name__ == '__main__':
    main()
