#!/bin/bash
# tools/seedtest.sh <tree> <ID> [tier]   run one check against a scratch tree (a worktree with a seeded change applied)
# evidence and replays go to a throw-away directory; prints the verdict lines.
tree=$1; id=$2; tier=${3:-quick}
tmp=$(mktemp -d /tmp/seedtest.XXXXXX)
cd "$(dirname "$0")/.."
VERIF_REPO=$tree VERIF_EVIDENCE_DIR=$tmp/ev VERIF_REPLAY_DIR=$tmp/rp timeout 3600 ./check $id $tier > $tmp/out 2>&1
rc=$?
grep -m3 "^VIOLATION" $tmp/out
grep "violation signatures\|HARNESS-ERROR\|KNOWN-FINDING" $tmp/out | cut -c1-400
grep -A3 -m1 "^VIOLATION" $tmp/out | tail -3 | cut -c1-400
tail -1 $tmp/out
echo "exit=$rc"
rm -rf $tmp
