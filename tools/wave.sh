#!/bin/bash
# tools/wave.sh <seed-id> <property> <check[,check]> "<needs>"   confirm a seeded change in /tmp/mut/<seed-id> (keepseed.py) and run the named checks against it
id=$1; prop=$2; checks=$3; needs=$4
cd "$(dirname "$0")/.."
tools/keepseed.py "$id" "$prop" "$checks" "$needs" 2>&1 | tail -1
for c in ${checks//,/ }; do echo "== $id vs $c"; tools/seedtest.sh /tmp/mut/$id $c; done
