#!/opt/veriftools/pyvenv/bin/python
"""Validate MANIFEST.json and evidence/*.json against the harness schemas (2020-12)."""
import json, glob, sys, os
import jsonschema
HERE = os.path.dirname(os.path.dirname(os.path.abspath(__file__)))
ok = True
def val(path, schema):
    global ok
    try:
        jsonschema.Draft202012Validator(json.load(open(schema))).validate(json.load(open(path)))
        print('valid  ', path)
    except Exception as e:
        ok = False
        print('INVALID', path, str(e)[:400])
val(os.path.join(HERE, 'MANIFEST.json'), '/root/.vp/MANIFEST.schema.json')
for p in sorted(glob.glob(os.path.join(HERE, 'evidence', '*.json'))):
    val(p, '/root/.vp/EVIDENCE.schema.json')
man = json.load(open(os.path.join(HERE, 'MANIFEST.json')))
ids = [c['property_id'] for c in man['checks']] + [c['property_id'] for c in man.get('not_applicable', [])]
want = [json.loads(l)['id'] for l in open(os.path.join(HERE, 'properties.jsonl'))]
if sorted(ids) != sorted(want):
    ok = False
    print('property coverage mismatch', sorted(set(want) ^ set(ids)))
sys.exit(0 if ok else 1)
