#!/venv/bin/python
"""tools/keepseed.py <wt-id e.g. C05a> <property> <check ids comma> "<needs>"
Confirms a seeded change produced in /tmp/mut/<wt-id> (tests still 92 passing with it; demonstration fails with it and passes without it)
and files it under /verif/seeded/<wt-id>/ (patch.diff, demo.py [+demo.js], meta.json).  The demo is rewritten to take the tree from
$ATHLIB_TREE (default /repo)."""
import sys, os, re, json, subprocess, shutil
wt, prop, checks, needs = sys.argv[1], sys.argv[2], sys.argv[3].split(','), sys.argv[4]
W, D = '/tmp/mut/' + wt, '/tmp/mut/%s_demo' % wt
out = '/verif/seeded/' + wt
os.makedirs(out, exist_ok=True)
diff = subprocess.check_output(['git', '-C', W, 'diff']).decode()
assert diff.strip(), 'no change in worktree'
open(out + '/patch.diff', 'w').write(diff)
ran = []
def sh(cmd, **kw):
    p = subprocess.run(cmd, shell=True, capture_output=True, text=True, **kw)
    ran.append(dict(cmd=cmd, rc=p.returncode, tail=(p.stdout + p.stderr).strip().splitlines()[-1:] ))
    return p
# rewrite demo(s)
for fn in os.listdir(D):
    if fn.startswith('demo.'):
        s = open(os.path.join(D, fn)).read()
        if fn.endswith('.py'):
            s2 = re.sub(r'''(['"])/tmp/mut/%s(_demo)?''' % wt, lambda m: ("DEMO + " if m.group(2) else "TREE + ") + m.group(1), s)
            hdr = "import os as _os\nTREE = _os.environ.get('ATHLIB_TREE', '/repo')\nDEMO = _os.path.dirname(_os.path.abspath(__file__))\n"
            # keep a leading shebang / docstring-free: just prepend after possible shebang and __future__ lines
            lines = s2.split('\n')
            i = 0
            while i < len(lines) and (lines[i].startswith('#!') or lines[i].startswith('# -*-') or lines[i].startswith('from __future__')):
                i += 1
            s2 = '\n'.join(lines[:i] + [hdr] + lines[i:])
        else:
            s2 = s
        open(os.path.join(out, fn), 'w').write(s2)
# 1. tests with the change
p = sh('cd %s && /venv/bin/python -m pytest -q -p no:cacheprovider --timeout=900 --continue-on-collection-errors 2>&1 | tail -1' % W)
tests = p.stdout.strip()
assert '92 passed' in tests and '3 failed' in tests, tests
# 2. demo with / without
env = dict(os.environ, ATHLIB_TREE=W)
with_rc = sh('cd %s && /venv/bin/python %s/demo.py' % (W, out), env=env).returncode
subprocess.check_call(['git', '-C', W, 'apply', '-R', out + '/patch.diff'])
try:
    without_rc = sh('cd %s && /venv/bin/python %s/demo.py' % (W, out), env=env).returncode
finally:
    subprocess.check_call(['git', '-C', W, 'apply', out + '/patch.diff'])
ok = with_rc != 0 and without_rc == 0
print(wt, 'tests:', tests, '| demo with change rc=%d, without rc=%d' % (with_rc, without_rc), 'OK' if ok else 'NOT CONFIRMED')
if not ok:
    sys.exit(1)
meta = dict(id=wt, property=prop, needs=needs, files_changed=sorted(set(re.findall(r'^\+\+\+ b/(.*)$', diff, re.M))),
            confirmed=dict(tests_with_change=tests, demo_rc_with_change=with_rc, demo_rc_without_change=without_rc),
            demo='ATHLIB_TREE=<tree> /venv/bin/python seeded/%s/demo.py   (exit 0 on a correct tree, non-zero with the patch applied)' % wt,
            detected_by=checks, commands=ran)
open(out + '/meta.json', 'w').write(json.dumps(meta, indent=1))
