"""python [-O|-OO] -m vlib.interprun <PID>     answers of every cross-API call (checks/crossapi.py) of the functions of check PID, each made first from the
restored pristine state, as one JSON line - used to compare interpreter modes (assert statements and docstrings are stripped under -O / -OO)"""
import os, sys, json
HERE = os.path.dirname(os.path.dirname(os.path.abspath(__file__)))


def main(argv):
    sys.path.insert(0, HERE)
    from vlib import common, orderpass, shared
    from checks import crossapi
    amb = os.environ.get('VERIF_AMBIENT', '')
    if amb.startswith('decimal-'):
        # the host application does its own Decimal sums with a directed rounding mode (set before anything else runs, also for threads started later)
        import decimal
        mode = getattr(decimal, amb[len('decimal-'):])
        decimal.getcontext().rounding = mode
        decimal.DefaultContext.rounding = mode
    if os.environ.get('VERIF_AMBIENT') == 'debug-logging':
        import logging
        logging.basicConfig(level=logging.DEBUG, handlers=[logging.NullHandler()])
    common.bind_repo()
    evs, first_age = crossapi.events()
    targets = crossapi.TARGETS[argv[1]]
    calls = [c for e in evs for c in crossapi.group(e, first_age) if c[0] in targets]
    for c in calls:
        orderpass.resolve(c[0])
    st = shared.SharedState('athlib')
    pristine = st.capture()
    if amb == 'line-tracer':
        # a debugger / coverage-style tracer is active: line events in every frame, and the tracer looks at the frame's local variables
        def _local(frame, event, arg):
            frame.f_locals
            return _local

        def _global(frame, event, arg):
            frame.f_locals
            return _local
        sys.settrace(_global)
    out = []
    for c in calls:
        st.restore(pristine)
        out.append([repr(c[:3]), list(orderpass.outcome(c[:3]))])
    sys.settrace(None)
    print('INTERP-RESULT ' + json.dumps(dict(optimize=sys.flags.optimize, ambient=os.environ.get('VERIF_AMBIENT', ''), answers=out)))
    return 0


if __name__ == '__main__':
    sys.exit(main(sys.argv))
