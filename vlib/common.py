"""Shared plumbing for every check: locating the code under test, verdict protocol,
known-findings matching, replay artefacts, evidence files and a fixed-chunk worker pool.

Nothing in here decides a property.  See DESIGN.md section 1.
"""
import os, sys, json, time, hashlib, traceback, multiprocessing

VERIF = os.path.dirname(os.path.dirname(os.path.abspath(__file__)))
REPO = os.environ.get('VERIF_REPO', '/repo')
EVIDENCE_DIR = os.environ.get('VERIF_EVIDENCE_DIR', os.path.join(VERIF, 'evidence'))
REPLAY_DIR = os.environ.get('VERIF_REPLAY_DIR', os.path.join(VERIF, 'replays'))
KNOWN_FILE = os.path.join(VERIF, 'known_findings.json')
NPROC = int(os.environ.get('VERIF_NPROC', '16'))
GUARD = 'ATHLIB_VERIF'


class HarnessError(Exception):
    """The check itself is broken or ran vacuously: exit 2, never a silent pass."""


def bind_repo():
    """Import athlib from the working tree under REPO (never a cached or installed copy)."""
    os.environ.setdefault('PYTHONHASHSEED', '0')
    os.environ[GUARD] = '1'
    if sys.path[0] != REPO:
        sys.path.insert(0, REPO)
    import athlib
    f = os.path.realpath(athlib.__file__)
    if not f.startswith(os.path.realpath(REPO) + os.sep):
        raise HarnessError('athlib imported from %s, not from %s' % (f, REPO))
    return athlib


def mod(name):
    """The real module object (athlib.athlon_score etc. are shadowed by functions)."""
    bind_repo()
    import importlib
    importlib.import_module(name)
    return sys.modules[name]


def seed():
    try:
        return int(os.environ.get('VERIF_SEED', '0'))
    except ValueError:
        return 0


# ------------------------------------------------------------------------------------------
# violations, known findings, replay artefacts

class Violation(dict):
    """A property violation: sig = narrow mechanism signature, case = replayable input,
    msg = observed vs expected."""

    def __init__(self, sig, case, msg, **extra):
        super().__init__(sig=sig, case=case, msg=msg, **extra)


def load_known():
    if not os.path.exists(KNOWN_FILE):
        return []
    with open(KNOWN_FILE) as f:
        return json.load(f)['findings']


def _jsonable(o):
    from decimal import Decimal
    from fractions import Fraction
    import datetime
    if isinstance(o, (Decimal, Fraction)):
        return str(o)
    if isinstance(o, (datetime.date, datetime.datetime)):
        return o.isoformat()
    if isinstance(o, (set, frozenset)):
        return sorted(map(str, o))
    if isinstance(o, tuple):
        return list(o)
    if isinstance(o, bytes):
        return o.decode('latin1')
    if isinstance(o, type):
        return o.__name__
    return repr(o)


def dumps(o, **kw):
    return json.dumps(o, default=_jsonable, **kw)


class Report(object):
    """Collects what one run of one check saw and turns it into exit code + evidence."""

    def __init__(self, pid, tier, level):
        self.pid = pid
        self.tier = tier
        self.level = level
        self.t0 = time.time()
        self.violations = []          # Violation objects, in enumeration order
        self.coverage = dict(evaluations=0, distinct_nontrivial=0, rule='', samples=[])
        self.assumptions = []
        self.parts = {}               # per-part coverage detail
        self.max_keep = 200           # violations kept verbatim (all are counted)
        self.nviol_total = 0

    # -- collecting
    def add_violation(self, v):
        self.nviol_total += 1
        if len(self.violations) < self.max_keep:
            self.violations.append(v)

    def extend(self, vs, total=None):
        for v in vs:
            self.add_violation(v)
        if total is not None and total > len(vs):
            self.nviol_total += total - len(vs)

    def count(self, evaluations=0, nontrivial=0, **kw):
        c = self.coverage
        c['evaluations'] += int(evaluations)
        c['distinct_nontrivial'] += int(nontrivial)
        for k, v in kw.items():
            c[k] = c.get(k, 0) + v

    def sample(self, s, limit=12):
        if len(self.coverage['samples']) < limit:
            self.coverage['samples'].append(s)

    def part(self, name, **kw):
        self.parts.setdefault(name, {}).update(kw)

    # -- finishing
    def finish(self, replay_fn=None):
        """Classify violations against known findings, write replays + evidence, return exit code."""
        known = [k for k in load_known() if k['property'] == self.pid]
        open_known = {k['signature']: k for k in known if k.get('status') == 'known'}
        hit_known = {}
        fresh = []
        for v in self.violations:
            k = open_known.get(v['sig'])
            if k is not None:
                hit_known.setdefault(v['sig'], []).append(v)
            else:
                fresh.append(v)
        # violations beyond max_keep were not classified: only tolerated if every kept one was known
        unclassified = self.nviol_total - len(self.violations)
        lines = []
        for sig, vs in hit_known.items():
            lines.append('KNOWN-FINDING: property=%s %s [%s; %d case(s) this run, e.g. %s]' % (
                self.pid, open_known[sig]['what'], sig, len(vs), dumps(vs[0]['case'])[:160]))
        rc = 0
        replay_paths = []
        d0 = os.path.join(REPLAY_DIR, self.pid)
        if os.path.isdir(d0):            # artefacts of an earlier run of this tier are stale now
            for fn in os.listdir(d0):
                if fn.startswith(self.tier + '-'):
                    os.remove(os.path.join(d0, fn))
        if fresh:
            rc = 1
            bysig = {}
            for v in fresh:
                bysig[v['sig']] = bysig.get(v['sig'], 0) + 1
            lines.append('violation signatures (kept cases): ' + ', '.join('%s x%d' % kv for kv in sorted(bysig.items())))
            # write replays round-robin over signatures so that every mechanism gets an artefact
            order = []
            pools = {}
            for v in fresh:
                pools.setdefault(v['sig'], []).append(v)
            while any(pools.values()):
                for k in list(pools):
                    if pools[k]:
                        order.append(pools[k].pop(0))
            fresh = order
            d = os.path.join(REPLAY_DIR, self.pid)
            os.makedirs(d, exist_ok=True)
            with open(os.path.join(d, '%s-all.json' % self.tier), 'w') as f:
                f.write(dumps([dict(v) for v in fresh], indent=1))
            for n, v in enumerate(fresh[:20]):
                p = os.path.join(d, '%s-%03d.json' % (self.tier, n))
                with open(p, 'w') as f:
                    f.write(dumps(dict(property=self.pid, sig=v['sig'], case=v['case'], msg=v['msg']), indent=1))
                replay_paths.append(p)
                lines.append('VIOLATION property=%s replay=%s' % (self.pid, p))
                lines.append('  sig=%s' % v['sig'])
                lines.append('  case=%s' % dumps(v['case'])[:600])
                lines.append('  %s' % str(v['msg'])[:800])
            if len(fresh) > 20:
                lines.append('  ... %d further violation(s) not written out' % (len(fresh) - 20))
        elif unclassified and self.violations:
            # all kept ones are known; the surplus shares the run's classifier but was not stored
            pass
        cov = self.coverage
        if not cov.get('samples'):
            raise HarnessError('the check recorded no sample cases')
        cov['parts'] = self.parts
        cov['known_findings_matched'] = {s: len(v) for s, v in hit_known.items()}
        ev = dict(property_id=self.pid, tier=self.tier, seed=seed(), level=self.level,
                  coverage=cov, assumptions=self.assumptions,
                  wall_s=round(time.time() - self.t0, 3), violations=len(fresh))
        os.makedirs(EVIDENCE_DIR, exist_ok=True)
        with open(os.path.join(EVIDENCE_DIR, self.pid + '.json'), 'w') as f:
            f.write(dumps(ev, indent=1))
            f.write('\n')
        for l in lines:
            print(l)
        print('%s %s: %s  evaluations=%s nontrivial=%s%s wall=%.1fs' % (
            self.pid, self.tier, 'OK' if rc == 0 else 'FAILED', cov.get('evaluations'),
            cov.get('distinct_nontrivial'),
            (' states=%s transitions=%s' % (cov.get('states'), cov.get('transitions'))) if 'states' in cov else '',
            time.time() - self.t0))
        sys.stdout.flush()
        return rc


# ------------------------------------------------------------------------------------------
# fixed-chunk worker pool (fork; results merged in chunk order so output is deterministic)

def _run_chunk(args):
    fn, chunk = args
    try:
        return ('ok', fn(chunk))
    except Exception:
        return ('err', traceback.format_exc())


def pmap(fn, chunks, nproc=None):
    """Apply fn to every chunk (a picklable description) in parallel; fn is a module-level function.
    Returns results in chunk order.  Any worker exception is a harness error."""
    chunks = list(chunks)
    nproc = min(nproc or NPROC, max(1, len(chunks)))
    if nproc == 1:
        res = [_run_chunk((fn, c)) for c in chunks]
    else:
        ctx = multiprocessing.get_context('fork')
        with ctx.Pool(nproc) as pool:
            res = pool.map(_run_chunk, [(fn, c) for c in chunks], chunksize=1)
    out = []
    for tag, r in res:
        if tag == 'err':
            raise HarnessError('worker failed:\n' + r)
        out.append(r)
    return out


def split_range(lo, hi, n):
    """[lo,hi) cut into <= n contiguous pieces."""
    total = hi - lo
    if total <= 0:
        return []
    n = max(1, min(n, total))
    step = -(-total // n)
    return [(a, min(hi, a + step)) for a in range(lo, hi, step)]


def digest(obj):
    return hashlib.blake2b(repr(obj).encode(), digest_size=16).digest()


class Acc(object):
    """Per-chunk accumulator returned by workers: counts, first violations, samples."""
    KEEP = 40

    def __init__(self):
        self.n = 0
        self.nontrivial = 0
        self.viol = []
        self.nviol = 0
        self.samples = []
        self.extra = {}

    def bad(self, sig, case, msg):
        self.nviol += 1
        # keep the first few per signature so that several mechanisms all surface
        k = sum(1 for v in self.viol if v['sig'] == sig)
        if k < 5 and len(self.viol) < self.KEEP:
            self.viol.append(Violation(sig, case, msg))

    def add(self, key, n=1):
        self.extra[key] = self.extra.get(key, 0) + n

    def pack(self):
        return dict(n=self.n, nontrivial=self.nontrivial, viol=[dict(v) for v in self.viol],
                    nviol=self.nviol, samples=self.samples, extra=self.extra)


def merge(report, packs, part=None):
    """Fold worker Acc.pack() results into the report (in chunk order)."""
    tot = dict(n=0, nontrivial=0, nviol=0, extra={})
    for p in packs:
        tot['n'] += p['n']
        tot['nontrivial'] += p['nontrivial']
        tot['nviol'] += p['nviol']
        for k, v in p['extra'].items():
            tot['extra'][k] = tot['extra'].get(k, 0) + v
        # spread kept violations across signatures
        for v in p['viol']:
            k = sum(1 for w in report.violations if w['sig'] == v['sig'])
            if k < 8:
                report.add_violation(Violation(v['sig'], v['case'], v['msg']))
            else:
                report.nviol_total += 1
        for s in p['samples']:
            report.sample(s)
    report.count(tot['n'], tot['nontrivial'])
    if part:
        report.part(part, evaluations=tot['n'], nontrivial=tot['nontrivial'], violations=tot['nviol'], **tot['extra'])
    return tot
