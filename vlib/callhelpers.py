"""Calls that are more than one public function applied to literals (used as 'verif:<name>' paths by the call-order passes):
graders built by the caller on table files of their own, through the public constructors."""
import os, json, tempfile, atexit, shutil
from vlib import common

_TMP = {}


def _dir():
    """the directory for the caller's own table files: $VERIF_TABLE_DIR (created and removed by the pass that uses these calls), else one per process"""
    d = os.environ.get('VERIF_TABLE_DIR')
    if d:
        os.makedirs(d, exist_ok=True)
        return d
    if 'd' not in _TMP:
        _TMP['d'] = tempfile.mkdtemp(prefix='verif_tables.')
        atexit.register(lambda d=_TMP['d'], p=os.getpid(): os.getpid() == p and shutil.rmtree(d, ignore_errors=True))
    return _TMP['d']


class table_dir(object):
    """with table_dir(): ...   one directory for this pass and its worker processes, removed afterwards"""
    def __enter__(self):
        self.d = tempfile.mkdtemp(prefix='verif_tables.')
        self.old = os.environ.get('VERIF_TABLE_DIR')
        os.environ['VERIF_TABLE_DIR'] = self.d
        return self.d

    def __exit__(self, *a):
        if self.old is None:
            os.environ.pop('VERIF_TABLE_DIR', None)
        else:
            os.environ['VERIF_TABLE_DIR'] = self.old
        shutil.rmtree(self.d, ignore_errors=True)


def custom_athlon_table():
    """a copy of the combined-events factor table with every factor damped halfway towards 1 (a federation's own table)"""
    src = os.path.join(common.REPO, 'athlib', 'wma', 'wma-athlons-data.json')
    dst = os.path.join(_dir(), 'house-athlons.json')
    if not os.path.exists(dst):
        with open(src) as f:
            d = json.load(f)

        def damp(x):
            if isinstance(x, float) and 0 < x < 1.5:
                return round((x + 1) / 2, 4)
            if isinstance(x, list):
                return [damp(y) for y in x]
            if isinstance(x, dict):
                return {k: damp(v) for k, v in x.items()}
            return x
        tmp = dst + '.%d' % os.getpid()
        with open(tmp, 'w') as f:
            json.dump(damp(d), f)
        os.replace(tmp, dst)
    return dst


def own_athlon_grader_factor(gender, age, event):
    """AthlonsAgeGrader(data_file_name=<own table>).calculate_factor(...)"""
    AG = common.mod('athlib.wma.agegrader')
    return AG.AthlonsAgeGrader(data_file_name=custom_athlon_table()).calculate_factor(gender, age, event)


def fresh_grader_factor(year, gender, age, event):
    """AgeGrader(year).calculate_factor(...) on a grader object of the caller's own"""
    AG = common.mod('athlib.wma.agegrader')
    return AG.AgeGrader(year).calculate_factor(gender, age, event)


def other_table_grader_factor(gender, age, event):
    """an AgeGrader pointed at the 2015 table by its data_file_name attribute (the documented way of choosing a table file)"""
    AG = common.mod('athlib.wma.agegrader')
    g = AG.AgeGrader()
    g.data_file_name = 'wma-data-2015.json'
    return g.calculate_factor(gender, age, event)
