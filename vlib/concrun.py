"""python -m vlib.concrun <SET> <tier>            run the scenario set SET (checks/concsets.py) under the thread-interleaving explorer of C16
python -m vlib.concrun <SET> --replay <path>   re-execute one recorded schedule
A separate process, because athlib must be imported through the lock shim (vlib/sched.import_with_coop_locks) before anything else imports it.
Prints one line 'CONCRUN-RESULT <json>'."""
import os, sys, json

HERE = os.path.dirname(os.path.dirname(os.path.abspath(__file__)))


def main(argv):
    setname = argv[1]
    os.environ['VERIF_SCEN_SET'] = setname
    sys.path.insert(0, HERE)
    from vlib import common
    from checks import c16
    if argv[2] == '--replay':
        with open(argv[3]) as f:
            rec = json.load(f)
        rec['case'] = rec['case'].get('conc', rec['case'])
        return c16.replay(rec)
    try:
        rep, execs, points = c16.run_set(argv[2])
        out = dict(ok=True, executions=execs, scheduling_points=points, parts=rep.parts, samples=rep.coverage['samples'][:2],
                   violations=[dict(v) for v in rep.violations], total=rep.nviol_total)
    except common.HarnessError as e:
        out = dict(ok=False, error=str(e))
    print('CONCRUN-RESULT ' + common.dumps(out))
    return 0


if __name__ == '__main__':
    sys.exit(main(sys.argv))
