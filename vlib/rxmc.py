"""rxmc - automata and language enumeration for the compiled event-code patterns (C04, C07, C10, C12).
DESIGN.md 2.2.

(a) regex syntax tree (re._parser) -> Thompson NFA -> lazily determinised DFA over a *symbolic alphabet*: the
    partition of all 1 114 112 code points induced by every atom used by any pattern.  match() semantics are
    modelled exactly (implicit start anchor, '$' also matching before one trailing newline, prefix match when a
    branch has no '$').
(b) binding to `re`: access strings of reachable (product) states and their one-symbol extensions, and all
    short strings over the class representatives, are fed to the real compiled patterns.
(c) language enumerator walking the same tree (structure exhaustive, character classes by a covering scheme).
"""
import re, sys, itertools
from re import _parser
from re._constants import (LITERAL, IN, BRANCH, SUBPATTERN, MAX_REPEAT, MIN_REPEAT, AT, AT_BEGINNING, AT_END, RANGE, CATEGORY,
                           CATEGORY_DIGIT, CATEGORY_SPACE, NEGATE, MAXREPEAT)
from vlib.common import HarnessError

MAXCP = 0x110000
NL = 10


# ------------------------------------------------------------------------------------------------
# atoms and the induced partition of Unicode

SUPPORTED_FLAGS = re.I | re.A        # besides re.U, which every str pattern has


def _fl(flags):
    return flags & SUPPORTED_FLAGS


LENIENT = False     # fallback mode of C04: constructs the automata do not model are over-approximated for candidate generation only


def _atoms_of(tree, acc, flags=0):
    for op, av in tree:
        if op is LITERAL:
            acc.add(('lit', av, flags & re.I))
        elif op is IN:
            for o, a in av:
                if o is LITERAL:
                    acc.add(('lit', a, flags & re.I))
                elif o is RANGE:
                    acc.add(('range', (a[0], a[1]), flags & re.I))
                elif o is CATEGORY:
                    acc.add(('cat', str(a), flags & re.A))
                elif o is NEGATE:
                    pass
                else:
                    raise HarnessError('unsupported class item %r' % (o,))
        elif op is BRANCH:
            for b in av[1]:
                _atoms_of(b, acc, flags)
        elif op is SUBPATTERN:
            if (av[1] or av[2]) and not LENIENT:
                raise HarnessError('inline flag groups are not supported')
            _atoms_of(av[3], acc, flags | (av[1] or 0) if LENIENT else flags)
        elif op in (MAX_REPEAT, MIN_REPEAT):
            _atoms_of(av[2], acc, flags)
        elif op is AT:
            if av not in (AT_BEGINNING, AT_END) and not LENIENT:
                raise HarnessError('unsupported anchor %r' % (av,))
        elif LENIENT:
            nm = str(op)
            if nm == 'GROUPREF_EXISTS':
                _atoms_of(av[1], acc, flags)
                if av[2] is not None:
                    _atoms_of(av[2], acc, flags)
            elif nm in ('ASSERT', 'ASSERT_NOT'):
                _atoms_of(av[1], acc, flags)
            elif nm in ('ATOMIC_GROUP',):
                _atoms_of(av, acc, flags)
            elif nm in ('POSSESSIVE_REPEAT',):
                _atoms_of(av[2], acc, flags)
            # GROUPREF, ANY, NOT_LITERAL, ...: no atoms of their own
        else:
            raise HarnessError('unsupported regex construct %r' % (op,))


def _scan(pattern_text, flags):
    """all code points matched by a one-character pattern, asked of the real `re`"""
    pat = re.compile(pattern_text, flags)
    return frozenset(cp for cp in range(MAXCP) if not (0xD800 <= cp <= 0xDFFF) and pat.fullmatch(chr(cp)))


_CAT_CACHE = {}


def category_members(cat, flags=0):
    """code points matched by \\d / \\s, asked of the real `re` (one pass over Unicode)"""
    k = (cat, flags)
    if k not in _CAT_CACHE:
        _CAT_CACHE[k] = _scan({'CATEGORY_DIGIT': r'\d', 'CATEGORY_SPACE': r'\s'}[cat], flags)
    return _CAT_CACHE[k]


def atom_members(a):
    kind, payload, flags = a
    if kind == 'lit':
        if not flags:
            return (payload,)
        k = ('lit', payload, flags)
        if k not in _CAT_CACHE:
            _CAT_CACHE[k] = _scan(re.escape(chr(payload)), flags)
        return _CAT_CACHE[k]
    if kind == 'range':
        if not flags:
            return range(payload[0], payload[1] + 1)
        k = ('range', payload, flags)
        if k not in _CAT_CACHE:
            _CAT_CACHE[k] = _scan('[%s-%s]' % (re.escape(chr(payload[0])), re.escape(chr(payload[1]))), flags)
        return _CAT_CACHE[k]
    return category_members(payload, flags)


class Alphabet(object):
    """classes[i] = dict(rep=code point, size=n, members=sorted list if small else None, vec=membership vector)"""

    def __init__(self, patterns):
        atoms = set()
        self.trees = {}
        for name, p in patterns.items():
            if p.flags & ~(re.UNICODE | SUPPORTED_FLAGS):
                raise HarnessError('pattern %s has unsupported flags %r' % (name, re.RegexFlag(p.flags)))
            t = _parser.parse(p.pattern, p.flags)
            self.trees[name] = t
            _atoms_of(t, atoms, _fl(p.flags))
        atoms.add(('lit', NL, 0))
        self.atoms = sorted(atoms, key=repr)
        # interesting code points: everything inside any finite atom or category; the rest is one class
        special = {}
        for ai, a in enumerate(self.atoms):
            for cp in atom_members(a):
                special.setdefault(cp, set()).add(ai)
        groups = {}
        for cp, s in special.items():
            groups.setdefault(frozenset(s), []).append(cp)
        self.classes = []
        for vec, cps in sorted(groups.items(), key=lambda kv: min(kv[1])):
            cps.sort()
            self.classes.append(dict(rep=cps[0], size=len(cps), members=cps if len(cps) <= 64 else cps[:8] + cps[-8:], vec=vec,
                                     complete=len(cps) <= 64))
        # the class of everything else (no atom matches it): pick representatives from several planes
        others = [cp for cp in (0x21, 0x40, 0x7E, 0xE9, 0x3A9, 0x4E2D, 0x1F600) if cp not in special]
        nspecial = len(special)
        self.classes.append(dict(rep=others[0], size=MAXCP - 2048 - nspecial, members=others, vec=frozenset(), complete=False))
        self.class_of_cp = {}
        for ci, c in enumerate(self.classes[:-1]):
            for cp in groups[c['vec']]:
                self.class_of_cp[cp] = ci
        self.other = len(self.classes) - 1
        self.nl = self.class_of_cp[NL]
        self.atom_index = {a: i for i, a in enumerate(self.atoms)}

    def cls(self, ch):
        return self.class_of_cp.get(ord(ch), self.other)

    def classes_of_atomset(self, items, flags=0):
        """class ids matched by a character set given as a list of atoms (with optional negation)"""
        neg = False
        want = set()
        for o, a in items:
            if o is NEGATE:
                neg = True
            elif o is LITERAL:
                want.add(self.atom_index[('lit', a, flags & re.I)])
            elif o is RANGE:
                want.add(self.atom_index[('range', (a[0], a[1]), flags & re.I)])
            elif o is CATEGORY:
                want.add(self.atom_index[('cat', str(a), flags & re.A)])
        out = [ci for ci, c in enumerate(self.classes) if bool(c['vec'] & want) != neg]
        return out

    def rep(self, ci):
        return chr(self.classes[ci]['rep'])


# ------------------------------------------------------------------------------------------------
# NFA (Thompson) with two guarded epsilon kinds: BOL (only before any input) and EOS (only at end of input)

class NFA(object):
    def __init__(self, alpha, tree, flags=0):
        self.alpha = alpha
        self.flags = flags
        self.eps = []       # state -> list of (guard, target)   guard in (None, 'bol', 'eos')
        self.trans = []     # state -> list of (class id set, target)
        self.start = self.new()
        self.final = self.new()
        e = self.build(tree, self.start)
        self.eps[e].append((None, self.final))

    def new(self):
        self.eps.append([])
        self.trans.append([])
        return len(self.eps) - 1

    def build(self, tree, s):
        """build the fragment for `tree` starting at state s, return its end state"""
        for op, av in tree:
            if op is LITERAL:
                e = self.new()
                self.trans[s].append((frozenset(self.alpha.classes_of_atomset([(LITERAL, av)], self.flags)), e))
                s = e
            elif op is IN:
                e = self.new()
                self.trans[s].append((frozenset(self.alpha.classes_of_atomset(av, self.flags)), e))
                s = e
            elif op is BRANCH:
                e = self.new()
                for b in av[1]:
                    bs = self.new()
                    self.eps[s].append((None, bs))
                    be = self.build(b, bs)
                    self.eps[be].append((None, e))
                s = e
            elif op is SUBPATTERN:
                s = self.build(av[3], s)
            elif op in (MAX_REPEAT, MIN_REPEAT):
                lo, hi, sub = av
                for _ in range(lo):
                    s = self.build(sub, s)
                if hi is MAXREPEAT:
                    # loop: s -> (sub) -> back to s, exit s
                    ls = self.new()
                    self.eps[s].append((None, ls))
                    le = self.build(sub, ls)
                    self.eps[le].append((None, ls))
                    s = ls
                else:
                    e = self.new()
                    self.eps[s].append((None, e))
                    for _ in range(hi - lo):
                        s = self.build(sub, s)
                        self.eps[s].append((None, e))
                    s = e
            elif op is AT:
                if av is AT_BEGINNING:
                    e = self.new()
                    self.eps[s].append(('bol', e))
                    s = e
                else:
                    e = self.new()
                    self.eps[s].append(('eos', e))
                    t = self.new()
                    self.trans[s].append((frozenset([self.alpha.nl]), t))
                    self.eps[t].append(('eos', e))
                    s = e
        return s

    def closure(self, states, bol=False, eos=False):
        seen = set(states)
        stack = list(states)
        while stack:
            q = stack.pop()
            for g, t in self.eps[q]:
                if g is None or (g == 'bol' and bol) or (g == 'eos' and eos):
                    if t not in seen:
                        seen.add(t)
                        stack.append(t)
        return frozenset(seen)


ACCEPT_ALL = 'ACCEPT_ALL'
DEAD = frozenset()


class DFA(object):
    """lazily determinised; states are frozensets of NFA states (or ACCEPT_ALL once a prefix has matched)"""

    def __init__(self, alpha, pattern, name=''):
        self.alpha = alpha
        self.name = name
        self.pattern = pattern
        self.nfa = NFA(alpha, _parser.parse(pattern.pattern, pattern.flags), _fl(pattern.flags))
        self.start = self._norm(self.nfa.closure([self.nfa.start], bol=True))
        self.delta = {}
        self._acc = {}
        self.nclasses = len(alpha.classes)

    def _norm(self, S):
        if self.nfa.final in S:
            return ACCEPT_ALL         # match() succeeds on this prefix whatever follows
        return S

    def step(self, S, ci):
        if S is ACCEPT_ALL:
            return ACCEPT_ALL
        k = (S, ci)
        r = self.delta.get(k)
        if r is None:
            nxt = set()
            for q in S:
                for cs, t in self.nfa.trans[q]:
                    if ci in cs:
                        nxt.add(t)
            r = self._norm(self.nfa.closure(nxt)) if nxt else DEAD
            self.delta[k] = r
        return r

    def accepting(self, S):
        if S is ACCEPT_ALL:
            return True
        a = self._acc.get(S)
        if a is None:
            a = self.nfa.final in self.nfa.closure(S, eos=True)
            self._acc[S] = a
        return a

    def accepts(self, s):
        S = self.start
        for ch in s:
            S = self.step(S, self.alpha.cls(ch))
            if S is DEAD:
                return False
        return self.accepting(S)


# ------------------------------------------------------------------------------------------------
# product exploration

def explore_product(dfas, alpha, on_state, max_states=5_000_000):
    """BFS over the reachable states of the product of the given DFAs.  on_state(tuple_of_states, access_string_classes)
    is called once per reachable product state.  Returns (states, transitions)."""
    start = tuple(d.start for d in dfas)
    seen = {start: ()}
    frontier = [start]
    ntrans = 0
    ncls = len(alpha.classes)
    while frontier:
        nxt = []
        for st in frontier:
            acc = seen[st]
            on_state(st, acc)
            for ci in range(ncls):
                t = tuple(d.step(s, ci) for d, s in zip(dfas, st))
                if all(x is DEAD for x in t):
                    continue
                ntrans += 1
                if t not in seen:
                    if len(seen) >= max_states:
                        raise HarnessError('product automaton exceeds %d states' % max_states)
                    seen[t] = acc + (ci,)
                    nxt.append(t)
        frontier = nxt
    return len(seen), ntrans, seen


def word(alpha, classes):
    return ''.join(alpha.rep(ci) for ci in classes)


# ------------------------------------------------------------------------------------------------
# (c) language enumerator
#
# Two levels.  *Skeletons* are produced exhaustively from the syntax tree: every BRANCH alternative, every optional
# group present/absent, repeat counts {min, min+1, min+2 (capped by max)} of composite sub-patterns.  A skeleton is a
# tuple of slots; a slot is a tuple of option strings.  Single characters, character classes and repeated character
# classes (digit runs, blanks, optional letters) are slots, so they do not multiply the number of skeletons.
# *Fills* are a covering scheme over the slots: three base assignments (all-first = simplest, all-second = decorated,
# all-last), every single-slot deviation from each base, and (thorough) every pair of deviations from the first base.

DIGIT_RUNS = ['1', '5', '0', '9', '10', '50', '05', '67', '36', '33', '84', '100', '400', '914', '1500', '42195', '00100', '1609', '0800', '726', '260', '123456', '000', '00005', '7260', '0000001', '9' * 30]
UNI_DIGITS = ['\u0663', '\uff11\uff12', '\u0967']          # Arabic-Indic 3, fullwidth 12, Devanagari 1
UNI_DIGITS_QUICK = ['\u0661\u0665', '\uff17']                 # Arabic-Indic 15, fullwidth 7
UNI_DIGITS = UNI_DIGITS + UNI_DIGITS_QUICK
ALL_SPACES = [chr(c) for c in (9, 10, 11, 12, 13, 28, 29, 30, 31, 0x85, 0xa0, 0x1680, 0x2000, 0x2003, 0x2009, 0x200a, 0x2028, 0x2029,
                               0x202f, 0x205f, 0x3000)]


class Skeletons(object):
    def __init__(self, alpha, rich=False, flags=0):
        self.alpha = alpha
        self.flags = flags
        self.rich = rich      # thorough: more blanks / unicode digits as slot options

    def class_chars(self, items):
        cis = self.alpha.classes_of_atomset(items, self.flags)
        allm = []
        for ci in cis:
            allm.extend(chr(m) for m in self.alpha.classes[ci]['members'])
        asc = [c for c in allm if ord(c) < 128]
        kind = 'digit' if asc and all(c.isdigit() for c in asc) and all(c.isdigit() for c in allm) else \
               'space' if allm and all(c.isspace() for c in allm) else 'other'
        return kind, asc, allm

    def char_slot(self, items):
        kind, asc, allm = self.class_chars(items)
        if kind == 'digit':
            opts = [c for c in '1509234678' if c in asc]
            if len(asc) == 10:
                opts = ['1', '5', '0', '9'] + (['2', '3', '4', '6', '7', '8', UNI_DIGITS[0]] if self.rich else [UNI_DIGITS[0]])
            return tuple(opts)
        if kind == 'space':
            return tuple([' '] + (ALL_SPACES if self.rich else ['\t']))
        return tuple(asc or allm[:1])

    def run_slot(self, items, lo, hi):
        kind, asc, allm = self.class_chars(items)
        ok = lambda r: len(r) >= lo and (hi is None or len(r) <= hi)
        if kind == 'digit':
            runs = [r for r in DIGIT_RUNS if ok(r) and all(ch in asc for ch in r)]
            if len(asc) == 10:
                # \d is Unicode-aware: runs written in other decimal digits are accepted codes too (quick: two of them, thorough: all listed)
                runs += [r for r in (UNI_DIGITS if self.rich else UNI_DIGITS_QUICK) if ok(r)]
            if not runs:
                # narrow digit classes such as [45678]: all members at the minimal length
                runs = [c * max(lo, 1) for c in asc if ok(c * max(lo, 1))]
            if lo == 0:
                runs = [''] + runs
            return tuple(dict.fromkeys(runs))
        if kind == 'space':
            runs = ['', ' ', '  '] + (ALL_SPACES if self.rich else ['\t'])
            return tuple(r for r in runs if ok(r))
        if hi is not None and hi <= 1:
            return tuple(([''] if lo == 0 else []) + (asc or allm[:1]))
        return None

    @staticmethod
    def cat(a, b):
        """concatenate two skeleton fragments, merging adjacent single-option slots"""
        if a and b and len(a[-1]) == 1 and len(b[0]) == 1:
            return a[:-1] + ((a[-1][0] + b[0][0],),) + b[1:]
        return a + b

    def seq(self, tree):
        out = [()]
        for op, av in tree:
            frags = self.node(op, av)
            out = [self.cat(a, f) for a in out for f in frags]
        return out

    def node(self, op, av):
        if op is LITERAL:
            if self.flags & re.I:
                return [(self.char_slot([(LITERAL, av)]),)]
            return [((chr(av),),)]
        if op is IN:
            return [(self.char_slot(av),)]
        if op is BRANCH:
            out = []
            for b in av[1]:
                out.extend(self.seq(b))
            return out
        if op is SUBPATTERN:
            return self.seq(av[3])
        if op in (MAX_REPEAT, MIN_REPEAT):
            lo, hi, sub = av
            hi = None if hi is MAXREPEAT else hi
            if len(sub) == 1 and sub[0][0] in (IN, LITERAL):
                items = sub[0][1] if sub[0][0] is IN else [(LITERAL, sub[0][1])]
                slot = self.run_slot(items, lo, hi)
                if slot is not None:
                    return [(slot,)]
            base = self.seq(sub)
            counts = sorted(set(c for c in (lo, lo + 1, lo + 2) if hi is None or c <= hi))
            out = []
            for c in counts:
                cur = [()]
                for _ in range(c):
                    cur = [self.cat(a, b) for a in cur for b in base]
                out.extend(cur)
            return out
        if op is AT:
            return [()]
        if LENIENT:
            nm = str(op)
            if nm == 'GROUPREF_EXISTS':
                return self.seq(av[1]) + (self.seq(av[2]) if av[2] is not None else [()])
            if nm == 'POSSESSIVE_REPEAT':
                return self.node(MAX_REPEAT, av)
            if nm == 'ATOMIC_GROUP':
                return self.seq(av)
            if nm == 'ANY':
                return [(('x', '1', ' '),)]
            return [()]             # look-arounds, back-references: contribute no characters to a candidate
        raise HarnessError('enumerator: unsupported %r' % (op,))


def fills(skel, pairs=False, triples=False):
    """strings for one skeleton under the covering scheme"""
    multi = [i for i, s in enumerate(skel) if len(s) > 1]
    out = []
    bases = []
    for pick in (0, 1, -1):
        b = [s[min(pick, len(s) - 1)] if pick >= 0 else s[-1] for s in skel]
        if b not in bases:
            bases.append(b)
    for b in bases:
        out.append(''.join(b))
        for i in multi:
            for o in skel[i]:
                if o != b[i]:
                    c = list(b)
                    c[i] = o
                    out.append(''.join(c))
    if pairs:
        for b in bases[:2]:
            for x in range(len(multi)):
                for y in range(x + 1, len(multi)):
                    i, j = multi[x], multi[y]
                    for oi in skel[i]:
                        if oi == b[i]:
                            continue
                        for oj in skel[j]:
                            if oj == b[j]:
                                continue
                            c = list(b)
                            c[i], c[j] = oi, oj
                            out.append(''.join(c))
    if triples:
        b = bases[0]
        for (i, j, k) in itertools.combinations(multi, 3):
            for oi in skel[i][1:]:
                for oj in skel[j][1:]:
                    for ok in skel[k][1:]:
                        c = list(b)
                        c[i], c[j], c[k] = oi, oj, ok
                        out.append(''.join(c))
    return out


def enumerate_language(alpha, pattern, rich=False, pairs=False, triples=False):
    """(strings, number of skeletons); strings are distinct, in generation order (simplest first)"""
    sk = Skeletons(alpha, rich, _fl(pattern.flags)).seq(_parser.parse(pattern.pattern, pattern.flags))
    sk = list(dict.fromkeys(sk))
    seen = {}
    for k in sk:
        for w in fills(k, pairs, triples):
            if w not in seen:
                seen[w] = 1
    return list(seen), len(sk)


# ------------------------------------------------------------------------------------------------
# the exported patterns

def load_patterns():
    from vlib import common
    common.bind_repo()
    C = common.mod('athlib.codes')
    return {n: getattr(C, n) for n in dir(C) if isinstance(getattr(C, n), re.Pattern)}
