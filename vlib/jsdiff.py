"""jsdiff - evaluate js/src functions under node on job lists produced by Python and compare with the Python twin (C18)."""
import os, json, subprocess, tempfile, shutil, math
from vlib import common

HARNESS = os.path.join(common.VERIF, 'js', 'harness.js')


def node_eval(jobs):
    """jobs: list of (fn name, list of argument lists) -> list of list of result dicts"""
    d = tempfile.mkdtemp(prefix='verif-c18-')
    try:
        jf, rf = os.path.join(d, 'jobs.jsonl'), os.path.join(d, 'res.jsonl')
        with open(jf, 'w') as f:
            for fn, args in jobs:
                f.write(json.dumps(dict(fn=fn, args=args)) + '\n')
        p = subprocess.run(['node', '--max-old-space-size=4096', HARNESS, os.path.join(common.REPO, 'js', 'src'), jf, rf],
                           capture_output=True, text=True, timeout=3600)
        if p.returncode != 0:
            raise common.HarnessError('node harness failed: %s' % p.stderr[-800:])
        with open(rf) as f:
            return [json.loads(l) for l in f if l.strip()]
    finally:
        shutil.rmtree(d, ignore_errors=True)


def py_eval(fn, args):
    try:
        return dict(v=fn(*args))
    except Exception as e:          # noqa
        return dict(e=type(e).__name__)


def same(py, js):
    """Python result dict vs JS result dict"""
    if 'e' in py or 'e' in js:
        return ('e' in py) == ('e' in js)
    a, b = py['v'], js['v']
    if js.get('t'):
        return False                 # NaN / Infinity / undefined where Python returned a value
    if isinstance(a, bool) or isinstance(b, bool):
        return a is b
    if isinstance(a, (int, float)) and isinstance(b, (int, float)):
        return a == b or math.isclose(a, b, rel_tol=1e-15, abs_tol=0.0)
    return a == b
