"""Generic capture / restore of the shared mutable state of the athlib modules (used by sched and hist).

Holders are module dicts, the instance dicts of athlib-class instances bound at module level (the shared
graders) and the class dicts of athlib classes.  Small values are deep-copied and restored *in place*
(so aliases held elsewhere stay valid); large containers (data tables) are restored by identity and their
content is fingerprinted so that an in-place mutation is detected rather than silently carried over.
"""
import sys, types, re, copy, hashlib, decimal, datetime, fractions, weakref, gc

WEAK = (weakref.WeakValueDictionary, weakref.WeakKeyDictionary, weakref.WeakSet)

# values that are immutable and compare by value: counted as one unit, rebound rather than copied, fingerprinted by repr
ATOMS = (str, bytes, int, float, bool, type(None), decimal.Decimal, complex, range, fractions.Fraction,
         datetime.date, datetime.time, datetime.timedelta, datetime.tzinfo)

SMALL = 20000


def _size(v, lim=SMALL + 1, depth=0):
    if isinstance(v, ATOMS):
        return 1
    if depth > 6:
        return lim
    n = 1
    if isinstance(v, dict):
        for k, x in v.items():
            n += 1 + _size(x, lim, depth + 1)
            if n >= lim:
                return lim
    elif isinstance(v, (list, tuple, set, frozenset)):
        for x in v:
            n += _size(x, lim, depth + 1)
            if n >= lim:
                return lim
    else:
        return lim
    return n


def _immutable(v):
    if isinstance(v, ATOMS):
        return True
    if isinstance(v, (tuple, frozenset)):
        return all(_immutable(x) for x in v)
    return False


def fingerprint(v):
    h = hashlib.blake2b(digest_size=12)

    def walk(x, depth=0):
        if isinstance(x, dict):
            h.update(b'{')
            for k, y in x.items():
                h.update(repr(k).encode())
                walk(y, depth + 1)
            h.update(b'}')
        elif isinstance(x, (list, tuple)):
            h.update(b'[')
            for y in x:
                walk(y, depth + 1)
            h.update(b']')
        elif isinstance(x, (set, frozenset)):
            h.update(repr(sorted(map(repr, x))).encode())
        else:
            h.update(repr(x).encode() if isinstance(x, ATOMS) else type(x).__name__.encode())
    walk(v)
    return h.hexdigest()


SKIP_TYPES = (types.ModuleType, types.FunctionType, types.BuiltinFunctionType, type, re.Pattern, types.MethodType,
              property, staticmethod, classmethod)


class SharedState(object):
    def __init__(self, prefix='athlib'):
        self.prefix = prefix
        self._nkeys = {}

    def holders(self, fresh=False):
        """[(label, dict-like holder, setter/deleter kind)]"""
        if not fresh and getattr(self, '_holders', None) is not None:
            return self._holders
        self._holders = self._find_holders()
        return self._holders

    def _find_holders(self):
        out = []
        seen = set()
        for name, m in sorted(sys.modules.items()):
            if m is None or not (name == self.prefix or name.startswith(self.prefix + '.')):
                continue
            out.append((name, 'module', m))
            for k, v in list(vars(m).items()):
                if k.startswith('__'):
                    continue
                if isinstance(v, type) and getattr(v, '__module__', '').startswith(self.prefix) and id(v) not in seen:
                    seen.add(id(v))
                    out.append(('%s.%s' % (v.__module__, v.__name__), 'class', v))
                elif (not isinstance(v, SKIP_TYPES) and type(v).__module__.startswith(self.prefix)
                      and hasattr(v, '__dict__') and not isinstance(v, BaseException) and id(v) not in seen):
                    seen.add(id(v))
                    out.append(('%s.%s' % (name, k), 'instance', v))
        return out

    @staticmethod
    def _items(kind, h):
        d = vars(h)
        for k, v in list(d.items()):
            if k.startswith('__') and k.endswith('__'):
                continue
            if isinstance(v, SKIP_TYPES) or callable(v) and not isinstance(v, (dict, list, set)):
                continue
            if kind == 'module' and type(v).__module__.startswith('typing'):
                continue
            yield k, v

    def _foreign_modules(self):
        """modules of the packages the athlib modules import (jsonschema, dateutil, json, ...): their namespaces are captured shallowly (identities), so
        that a monkeypatch the library puts on them, or takes off them, during a call is undone with the rest of the state"""
        fm = getattr(self, '_foreign', None)
        if fm is None:
            tops = set()
            for name, m in list(sys.modules.items()):
                if m is None or not (name == self.prefix or name.startswith(self.prefix + '.')):
                    continue
                for v in list(vars(m).values()):
                    if isinstance(v, types.ModuleType):
                        tops.add(v.__name__.split('.')[0])
                    else:
                        mod = getattr(v, '__module__', None)
                        if isinstance(mod, str):
                            tops.add(mod.split('.')[0])
            tops -= {self.prefix, 'builtins', 'sys', 'os', 'posixpath', 'typing', 'abc', 'types', 'functools', 'collections', 'decimal', 'math', 're', 'io'}
            fm = [m for name, m in sorted(sys.modules.items()) if m is not None and name.split('.')[0] in tops and isinstance(m, types.ModuleType)]
            self._foreign = fm
        return fm

    def _insts(self, v):
        """the athlib-class instances held (directly, or one level down) by a container, or None if it holds anything else that is not plain data"""
        out = []
        items = list(v.values()) if isinstance(v, dict) else list(v)
        for x in items:
            subs = [x]
            if isinstance(x, (list, tuple)):
                subs = list(x)
            elif isinstance(x, dict):
                subs = list(x.values())
            for y in subs:
                if hasattr(y, '__dict__') and type(y).__module__.startswith(self.prefix) and not isinstance(y, type):
                    try:
                        copy.deepcopy(vars(y))
                    except Exception:
                        return None
                    out.append(y)
                elif _size(y) > SMALL:
                    return None
        return out

    def _closure_cells(self):
        """mutable containers held in closure cells (and in function attributes / defaults) of athlib functions and methods: a hand-written memo decorator keeps
        its table there, where no module or class attribute points at it"""
        cc = getattr(self, '_cells', None)
        if cc is None:
            cc, seen = [], set()

            def visit(f, depth=0):
                f = getattr(f, '__func__', f)
                if not isinstance(f, types.FunctionType) or id(f) in seen or depth > 3:
                    return
                seen.add(id(f))
                if not (getattr(f, '__module__', '') or '').startswith(self.prefix):
                    return
                for cell in (f.__closure__ or ()):
                    try:
                        v = cell.cell_contents
                    except ValueError:
                        continue
                    if isinstance(v, (dict, list, set)) and id(v) not in seen:
                        seen.add(id(v))
                        cc.append(v)
                    else:
                        visit(v, depth + 1)
                for v in list(vars(f).values()) + list(f.__defaults__ or ()) + list((f.__kwdefaults__ or {}).values()):
                    if isinstance(v, (dict, list, set)) and id(v) not in seen:
                        seen.add(id(v))
                        cc.append(v)
                    else:
                        visit(v, depth + 1)
                w = getattr(f, '__wrapped__', None)
                if w is not None:
                    visit(w, depth + 1)
            for label, kind, h in self.holders():
                if kind in ('module', 'class'):
                    for v in list(vars(h).values()):
                        visit(v)
                        if isinstance(v, property):
                            for g in (v.fget, v.fset, v.fdel):
                                if g is not None:
                                    visit(g)
            self._cells = cc
        return cc

    def capture(self):
        snap = {}
        cells = []
        for v in self._closure_cells():
            if _size(v) <= SMALL:
                try:
                    cells.append((v, copy.deepcopy(v)))
                except Exception:
                    pass
        snap[('__cells__', '')] = ('cells', cells, None)
        snap[('__foreign__', '')] = ('foreign', [(m, dict(vars(m))) for m in self._foreign_modules()], None)
        for label, kind, h in self.holders():
            # the exact set of names present now: any other name found at restore time is removed
            snap[('__allkeys__', label)] = ('keys', frozenset(vars(h).keys()), None)
            for k, v in self._items(kind, h):
                if isinstance(v, WEAK):
                    # a weak container: its members live only while somebody else holds them; restored to the members it had (strong references kept here)
                    snap[(label, k)] = ('weak', v, list(v.items()) if hasattr(v, 'items') else list(v))
                    self._has_weak = True
                elif _immutable(v):
                    snap[(label, k)] = ('rebind', v, None)
                elif hasattr(v, '__dict__') and type(v).__module__.startswith(self.prefix):
                    snap[(label, k)] = ('ident', v, None)           # its own holder covers the content
                elif _size(v) <= SMALL:
                    snap[(label, k)] = ('copy', v, copy.deepcopy(v))
                elif isinstance(v, (dict, list)) and len(v) <= 500 and self._insts(v) is not None:
                    # a small container of athlib objects (a memo of calculators, graders ...): its membership and the objects' own attributes
                    insts = self._insts(v)
                    snap[(label, k)] = ('objs', v, (copy.copy(v), [(o, copy.deepcopy(vars(o))) for o in insts]))
                else:
                    snap[(label, k)] = ('big', v, fingerprint(v))
        return snap

    def _memoised(self):
        """functools caches on athlib functions and methods: not reachable as data, emptied on every restore (an empty cache is a state
        every caller can be in)"""
        m = getattr(self, '_memo_fns', None)
        if m is None:
            m = []
            for label, kind, h in self.holders():
                if kind in ('module', 'class'):
                    for k, v in list(vars(h).items()):
                        f = getattr(v, '__func__', v)
                        if callable(getattr(f, 'cache_clear', None)):
                            m.append(f)
            self._memo_fns = m
        return m

    def restore(self, snap):
        for f in self._memoised():
            f.cache_clear()
        for m, names in snap.get(('__foreign__', ''), (None, (), None))[1]:
            d = vars(m)
            if d.keys() != names.keys() or any(d[k] is not v for k, v in names.items()):
                for k in [k for k in d if k not in names]:
                    try:
                        delattr(m, k)
                    except Exception:
                        pass
                for k, v in names.items():
                    if d.get(k, self) is not v:
                        setattr(m, k, v)
        for v, extra in snap.get(('__cells__', ''), (None, (), None))[1]:
            if v != extra or (isinstance(v, dict) and list(v) != list(extra)):
                if isinstance(v, list):
                    v[:] = copy.deepcopy(extra)
                else:
                    v.clear()
                    v.update(copy.deepcopy(extra))
        by_label = getattr(self, '_by_label', None)
        if by_label is None or by_label[0] is not snap:
            bl = {}
            for (lab, k), val in snap.items():
                if lab in ('__foreign__', '__cells__'):
                    continue
                bl.setdefault(lab, []).append((k, val))
            by_label = self._by_label = (snap, bl)
        bl = by_label[1]
        for label, kind, h in self.holders():
            d = vars(h)
            if d.keys() != snap[('__allkeys__', label)][1]:
                for k, _v in list(self._items(kind, h)):
                    if (label, k) not in snap:
                        # something new appeared (lazy attribute, hoisted scratch): remove it
                        try:
                            delattr(h, k)
                        except Exception:
                            pass
            for k, (how, v, extra) in bl.get(label, ()):
                if how == 'keys':
                    continue
                if how == 'weak':
                    if d.get(k, self) is not v:
                        setattr(h, k, v)
                    gc.collect()
                    v.clear()
                    if hasattr(v, 'items'):
                        for kk, vv in extra:
                            v[kk] = vv
                    else:
                        for vv in extra:
                            v.add(vv)
                    continue
                if how == 'objs':
                    if d.get(k, self) is not v:
                        setattr(h, k, v)
                    shallow, insts = extra
                    if isinstance(v, dict):
                        if len(v) != len(shallow) or any(v.get(kk, self) is not vv for kk, vv in shallow.items()):
                            v.clear()
                            v.update(shallow)
                    elif len(v) != len(shallow) or any(a is not b for a, b in zip(v, shallow)):
                        v[:] = shallow
                    for o, dd in insts:
                        if vars(o) != dd:
                            vars(o).clear()
                            vars(o).update(copy.deepcopy(dd))
                    continue
                if how in ('rebind', 'ident', 'big'):
                    if d.get(k, self) is not v:
                        setattr(h, k, v)
                else:
                    if d.get(k, self) is not v:
                        setattr(h, k, v)
                    if isinstance(v, dict):
                        if v != extra or list(v) != list(extra):
                            v.clear()
                            v.update(copy.deepcopy(extra))
                    elif isinstance(v, list):
                        if v != extra:
                            v[:] = copy.deepcopy(extra)
                    elif isinstance(v, set):
                        if v != extra:
                            v.clear()
                            v.update(extra)

    def verify_big(self, snap):
        """[(label, key)] of large containers whose content changed since capture"""
        bad = []
        for (lab, k), (how, v, extra) in snap.items():
            if how == 'big' and fingerprint(v) != extra:
                bad.append((lab, k))
        return bad

    def digest(self, snap=None):
        """fingerprint of the complete current shared state (small values only + identities of big ones)"""
        out = []
        for label, kind, h in self.holders():
            for k, v in self._items(kind, h):
                if hasattr(v, '__dict__') and type(v).__module__.startswith(self.prefix):
                    out.append((label, k, 'obj'))
                elif _immutable(v) or _size(v) <= SMALL:
                    out.append((label, k, repr(v) if _immutable(v) else fingerprint(v)))
                else:
                    out.append((label, k, 'big', len(v) if hasattr(v, '__len__') else 0))
        return out
