"""Concurrency pass for functions meant to be pure (C02 C06 C07 C10 C12 C13 C17): two threads inside the property's own functions, every
interleaving at source-line granularity with a bounded number of pre-emptions (the C16 explorer, vlib/sched.py), each thread's answer against
the same call made alone.  The scenario sets are in checks/concsets.py; they run in a process of their own (vlib/concrun.py)."""
import os, sys, json, subprocess
from vlib import common
from vlib.common import Violation, HarnessError


def part(rep, setname, tier):
    env = dict(os.environ, VERIF_SCEN_SET=setname, PYTHONHASHSEED='0')
    p = subprocess.run([sys.executable, '-m', 'vlib.concrun', setname, tier], cwd=common.VERIF, env=env, capture_output=True, text=True)
    line = [l for l in p.stdout.splitlines() if l.startswith('CONCRUN-RESULT ')]
    if p.returncode != 0 or not line:
        raise HarnessError('concurrency pass %s failed to run (rc=%s): %s' % (setname, p.returncode, (p.stderr or p.stdout)[-1500:]))
    r = json.loads(line[-1][len('CONCRUN-RESULT '):])
    if not r['ok']:
        raise HarnessError('concurrency pass %s: %s' % (setname, r['error']))
    if r['executions'] < 50:
        raise HarnessError('concurrency pass %s vacuous: %d schedules' % (setname, r['executions']))
    for v in r['violations']:
        rep.add_violation(Violation('conc:' + v['sig'], dict(conc=v['case'], set=setname), v['msg']))
    rep.count(evaluations=r['executions'], nontrivial=r['executions'])
    rep.part('concurrency pass (set %s): two threads inside the functions, all interleavings at source-line granularity up to the pre-emption bound' % setname,
             schedules=r['executions'], scheduling_points=r['scheduling_points'],
             scenarios={k: dict(executions=v.get('executions'), bound=v.get('bound'), distinct_outcomes=v.get('distinct_outcomes'), threads=v.get('threads'))
                        for k, v in r['parts'].items()})
    rep.assumptions.append('concurrency pass: scenario list and pre-emption bound are covering choices; every schedule within the bound is executed on the real code')
    return r


def is_conc(rec):
    return str(rec.get('sig', '')).startswith('conc:')


def replay(rec):
    import tempfile
    with tempfile.NamedTemporaryFile('w', suffix='.json', delete=False) as f:
        json.dump(rec, f)
    try:
        env = dict(os.environ, VERIF_SCEN_SET=rec['case']['set'], PYTHONHASHSEED='0')
        return subprocess.run([sys.executable, '-m', 'vlib.concrun', rec['case']['set'], '--replay', f.name], cwd=common.VERIF, env=env).returncode
    finally:
        os.unlink(f.name)
