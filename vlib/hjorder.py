"""hjorder - every jumping order of a result card (C08 order-independence clause, beyond the BFS bound).   DESIGN.md 2.1a

A competition is given as a list of rounds (bar, {bib: attempt string}).  Within a round the athletes' trials may be taken in any order that keeps
each athlete's own sequence.  The orders of one round form a DAG of *positions* (how many of its trials each athlete has taken); its nodes are
explored level by level through the real object: a node is (position, canonical internal snapshot + model state), every successor is produced by
applying one real call to a clone, and nodes that agree on position and internal snapshot are merged (their futures are identical: the log is
never read, which GuardedLog enforces).  So *all* interleavings are covered with at most prod(len+1) * n calls per round, not their multinomial number.

Checked on every node:   O1  a trial the rules allow is never refused in any order
                         O2  all internal states reached at one position (= same cards) show one observable snapshot
                         O3  lock-step phase agreement with the rule model
and on every distinct state at the end of a round: the C03 place monitor and the C08 log-replay / card round-trip monitors.
The distinct end states of a round (one, if the implementation is order-independent inside) start the next round.
"""
import pickle, itertools
from decimal import Decimal
from vlib import common, hjmc, hjmodel
from vlib.common import digest, HarnessError
from vlib.hjmc import GuardedLog, LETTER, Model, new_comp, internal, observable, monitor_c03, monitor_c08

_L = {}        # the level being expanded, inherited by forked workers
MAX_LEVEL = 150000
PAR_MIN = 600  # levels smaller than this are expanded in the calling process


def apply(comp, call, order):
    kind, arg = call
    GuardedLog.armed = True
    try:
        if kind == 'add':
            comp.add_jumper(bib=hjmc.benc(arg), order=order[arg])
        elif kind == 'bar':
            comp.set_bar_height(hjmc.enc(arg) if isinstance(arg, int) else arg)
        else:
            getattr(comp, LETTER[kind])(hjmc.benc(arg))
        return None
    except Exception as e:      # noqa
        return e
    finally:
        GuardedLog.armed = False


def _key(comp, model):
    return digest((internal(comp), model.canon()))


def _obs_digest(comp):
    return digest(observable(comp))


def _expand(items):
    """items: list of (pos, key).  Returns (successors, violations, counts)."""
    seqs, bibs, order, nodes = _L['seqs'], _L['bibs'], _L['order'], _L['nodes']
    RuleViolation = hjmc.RV()
    out, viol = {}, []
    n_calls = n_pruned = 0
    for pos, key in items:
        pick, mpick, path = nodes[(pos, key)]
        model = pickle.loads(mpick)
        for i, b in enumerate(bibs):
            if pos[i] >= len(seqs[b]):
                continue
            call = (seqs[b][pos[i]], b)
            c2 = pickle.loads(pick)
            allowed = model.allowed(call)
            err = apply(c2, call, order)
            n_calls += 1
            where = path + [call]
            if err is not None:
                if allowed is True:
                    sig = 'O1:trial-refused-in-some-jumping-order' if isinstance(err, RuleViolation) else 'O1:trial-raises-%s-in-some-jumping-order' % type(err).__name__
                    viol.append((sig, where, 'refused: %r' % (err,)))
                else:
                    n_pruned += 1
                continue
            m2 = model.clone()
            m2.step(call, c2.state)
            if m2.irregular == 0 and c2.state != m2.phase:
                viol.append(('O3:phase-differs:%s-vs-model-%s' % (c2.state, m2.phase), where, 'implementation %s, rules %s' % (c2.state, m2.phase)))
                continue
            pos2 = pos[:i] + (pos[i] + 1,) + pos[i + 1:]
            k2 = _key(c2, m2)
            if (pos2, k2) not in out:
                out[(pos2, k2)] = (pickle.dumps(c2, 4), pickle.dumps(m2, 4), where, _obs_digest(c2))
    if GuardedLog.reads:
        raise HarnessError('a transition read the action log')
    return out, viol, (n_calls, n_pruned)


def explore_round(starts, bar, seqs, order, st, viol, prefix_of):
    """starts: {key: (comp pickle, model pickle, path)}.  Returns the same structure for the end of the round."""
    bibs = [b for b in order if seqs.get(b)]
    ends = {}
    for skey, (pick, mpick, path) in starts.items():
        comp, model = pickle.loads(pick), pickle.loads(mpick)
        if comp.state in ('finished', 'drawn'):
            ends[skey] = (pick, mpick, path)
            continue
        call = ('bar', bar)
        err = apply(comp, call, order)
        if err is not None:
            if model.allowed(call) is True:
                viol.append(('O1:bar-refused', path + [call], 'refused: %r' % (err,)))
            continue
        model.step(call, comp.state)
        path = path + [call]
        pos0 = tuple(0 for _ in bibs)
        level = {(pos0, _key(comp, model)): (pickle.dumps(comp, 4), pickle.dumps(model, 4), path)}
        total = sum(len(seqs[b]) for b in bibs)
        for depth in range(total):
            _L.update(seqs=seqs, bibs=bibs, order=order, nodes=level)
            keys = list(level)
            if len(keys) >= PAR_MIN:
                n = common.NPROC * 4
                res = common.pmap(_expand, [keys[i::n] for i in range(n)])
            else:
                res = [_expand(keys)]
            nxt, obs_at = {}, {}
            for out, vs, (nc, npr) in res:
                viol.extend(vs)
                st['calls'] += nc
                st['pruned'] += npr
                for k, (p2, m2, where, od) in out.items():
                    if k not in nxt:
                        nxt[k] = (p2, m2, where)
                        seen = obs_at.setdefault(k[0], (od, where))
                        if seen[0] != od:
                            viol.append(('O2:same-cards-different-observable-in-another-jumping-order', where,
                                         'the same trials taken in the order %s show another state/places' % (hjmc.fmt_hist(seen[1][len(prefix_of):]),)))
            st['nodes'] += len(nxt)
            st['positions'] += len(obs_at)
            if len(nxt) > MAX_LEVEL:
                raise HarnessError('jumping-order DAG too large (%d nodes in one level): use deviate_card for this card' % len(nxt))
            if len(nxt) != len(obs_at):
                cnt = {}
                for k in nxt:
                    cnt[k[0]] = cnt.get(k[0], 0) + 1
                st['max_states_per_position'] = max(st['max_states_per_position'], max(cnt.values()))
            level = nxt
            if not level:
                break
        for (pos, key), v in level.items():
            ends.setdefault(key, v)
    st['rounds'] += 1
    st['max_end_states'] = max(st['max_end_states'], len(ends))
    return ends


def monitors(ends, viol, st, want):
    for key, (pick, mpick, path) in ends.items():
        comp, model = pickle.loads(pick), pickle.loads(mpick)
        st['monitored'] += 1
        ms = []
        if 'C03' in want:
            ms += monitor_c03(comp, model)
        if 'C08' in want:
            ms += monitor_c08(comp, model)
        for sig, _, msg in ms:
            viol.append((sig.replace('C03:', ''), path, msg))


def new_stats():
    return dict(rounds=0, nodes=0, positions=0, calls=0, pruned=0, monitored=0, max_end_states=0, max_states_per_position=1, competitions=0,
                orders_covered=0)


def n_orders(seqs):
    """number of interleavings of one round (multinomial coefficient)"""
    from math import factorial
    ls = [len(s) for s in seqs.values() if s]
    n = factorial(sum(ls))
    for l in ls:
        n //= factorial(l)
    return n


def start(bibs):
    order = {b: i + 1 for i, b in enumerate(bibs)}
    comp, model = new_comp(), Model()
    path = []
    for b in bibs:
        call = ('add', b)
        err = apply(comp, call, order)
        if err is not None:
            raise HarnessError('registration refused: %r' % (err,))
        model.step(call, comp.state)
        path.append(call)
    return order, {_key(comp, model): (pickle.dumps(comp, 4), pickle.dumps(model, 4), path)}


def explore_card(card, want=('C03', 'C08'), st=None, viol=None):
    """card = dict(heights=[text], cards=[(bib, [attempt strings])]) as in data/hj_cards.py"""
    st = st if st is not None else new_stats()
    viol = viol if viol is not None else []
    bibs = [b for b, _ in card['cards']]
    order, states = start(bibs)
    orders = 1
    for hi, h in enumerate(card['heights']):
        seqs = {b: (cs[hi] if hi < len(cs) else '') for b, cs in card['cards']}
        orders *= n_orders(seqs)
        states = explore_round(states, Decimal(h), seqs, order, st, viol, [])
        monitors(states, viol, st, want)
        if not states:
            break
    st['competitions'] += 1
    st['orders_covered'] += orders
    st['final_states'] = sorted({pickle.loads(p).state for p, _, _ in states.values()})
    return st, viol


# ------------------------------------------------------------------------------------------------
# synthetic competitions: multisets of reduced cards, then every jump-off continuation (bar same / down / up, every alive athlete o / x / r)

def _synthetic_work(chunk):
    (R, J, deltas, want), combos = chunk
    st, viol = new_stats(), []
    outcomes = set()
    for combo in combos:
        bibs = hjmc.BIBS[:len(combo)]
        order, states = start(bibs)
        orders = 1
        for r in range(R):
            seqs = {b: combo[i][r] for i, b in enumerate(bibs)}
            orders *= n_orders(seqs)
            states = explore_round(states, hjmc.FIRST_HEIGHT + r, seqs, order, st, viol, [])
        monitors(states, viol, st, want)
        # closing height: everybody still in fails out (three consecutive failures), so that ties for first end in a jump-off or a draw
        if states:
            m0 = pickle.loads(next(iter(states.values()))[1])
            if m0.phase in ('started', 'won'):
                seqs = {b: 'x' * (3 - hjmodel.consecutive_failures(m0.cards[b])) for b in m0.alive_regular()}
                orders *= n_orders(seqs)
                states = explore_round(states, hjmc.FIRST_HEIGHT + R, seqs, order, st, viol, [])
                monitors(states, viol, st, want)
        st['competitions'] += 1
        st['orders_covered'] += orders

        def jo(states, depth):
            for key, (pick, mpick, path) in list(states.items()):
                model = pickle.loads(mpick)
                outcomes.add(model.phase)
                if model.phase != 'jumpoff' or depth >= J:
                    continue
                alive = list(model.jo_alive)
                last = model.heights[-1]
                for d in deltas:
                    bar = last + d
                    if bar < hjmc.MIN_HEIGHT:
                        continue
                    for outs in itertools.product('oxr', repeat=len(alive)):
                        seqs = {b: o for b, o in zip(alive, outs)}
                        st['orders_covered'] += n_orders(seqs)
                        ends = explore_round({key: (pick, mpick, path)}, bar, seqs, order, st, viol, [])
                        # replay / round-trip / place monitors on decided competitions and at the depth bound (intermediate jump-off states of small fields are the BFS's)
                        monitors({k: v for k, v in ends.items() if depth + 1 >= J or pickle.loads(v[1]).phase != 'jumpoff'}, viol, st, want)
                        jo(ends, depth + 1)
        jo(states, 0)
        if len(viol) > 40:
            break
    return st, viol[:40], outcomes


def synthetic(n, R, J, deltas=(0, -1, 1), per=1, limit=None, want=('C03', 'C08')):
    cards = hjmc.reduced_cards(R, limit, per)
    combos = list(itertools.combinations_with_replacement(cards, n))
    nchunks = min(len(combos), common.NPROC * 8)
    global PAR_MIN
    old, PAR_MIN = PAR_MIN, 10 ** 9          # workers do not fork again
    try:
        res = common.pmap(_synthetic_work, [((R, J, deltas, want), combos[i::nchunks]) for i in range(nchunks)])
    finally:
        PAR_MIN = old
    tot, viol, outcomes = new_stats(), [], set()
    for st, vs, oc in res:
        for k, v in st.items():
            if k.startswith('max_'):
                tot[k] = max(tot[k], v)
            elif isinstance(v, int):
                tot[k] += v
        viol.extend(vs)
        outcomes |= oc
    tot['card_multisets'] = len(combos)
    tot['reduced_cards'] = len(cards)
    tot['phases_after_regular_heights'] = sorted(outcomes)
    return tot, viol


# ------------------------------------------------------------------------------------------------
# large fields: jumping orders within a bounded number of deviations from the round-robin order (merging by internal state does not help there: the
# order of tied athletes inside the ranking list differs from path to path, so the DAG above grows with the factorial of the field size)

def _rr_next(bibs, pos, seqs, last):
    """default scheduler: the next athlete after `last` (cyclically, in start order) who still has a trial at this height"""
    n = len(bibs)
    start = (bibs.index(last) + 1) if last in bibs else 0
    for d in range(n):
        b = bibs[(start + d) % n]
        if pos[b] < len(seqs[b]):
            return b
    return None


def _dev_work(chunk):
    card, k, items = chunk
    st, viol = new_stats(), []
    ref = _G_DEV['ref']
    for item in items:
        _dev_run(card, k, item, ref, st, viol)
        if len(viol) > 30:
            break
    return st, viol[:30]


_G_DEV = {}


def _dev_run(card, k, forced, ref, st, viol, collect=None):
    """one complete execution of the card: `forced` = {global trial index: bib} are the deviations (everything else round-robin).  With collect (a list)
    the function records, for every trial index, the athletes that could have jumped instead (used to enumerate the next deviation level)."""
    bibs = [b for b, _ in card['cards']]
    order, states = start(bibs)
    (pick, mpick, path), = states.values()
    comp, model = pickle.loads(pick), pickle.loads(mpick)
    RuleViolation = hjmc.RV()
    idx = 0
    ends = []
    for hi, h in enumerate(card['heights']):
        if comp.state in ('finished', 'drawn'):
            break
        seqs = {b: (cs[hi] if hi < len(cs) else '') for b, cs in card['cards']}
        call = ('bar', Decimal(h))
        err = apply(comp, call, order)
        if err is not None:
            if model.allowed(call) is True:
                viol.append(('O1:bar-refused', path + [call], 'refused: %r' % (err,)))
            return None
        model.step(call, comp.state)
        path = path + [call]
        pos = {b: 0 for b in bibs}
        last = None
        while True:
            b = _rr_next(bibs, pos, seqs, last)
            if b is None:
                break
            if collect is not None:
                collect.append((idx, [x for x in bibs if x != b and pos[x] < len(seqs[x])]))
            if idx in forced:
                b = forced[idx]
            call = (seqs[b][pos[b]], b)
            allowed = model.allowed(call)
            err = apply(comp, call, order)
            st['calls'] += 1
            if err is not None:
                if allowed is True:
                    sig = 'O1:trial-refused-in-some-jumping-order' if isinstance(err, RuleViolation) else 'O1:trial-raises-%s-in-some-jumping-order' % type(err).__name__
                    viol.append((sig, path + [call], 'refused: %r' % (err,)))
                return None
            model.step(call, comp.state)
            path = path + [call]
            if model.irregular == 0 and comp.state != model.phase:
                viol.append(('O3:phase-differs:%s-vs-model-%s' % (comp.state, model.phase), path, 'implementation %s, rules %s' % (comp.state, model.phase)))
                return None
            pos[b] += 1
            last = b
            idx += 1
        od = _obs_digest(comp)
        ends.append(od)
        if ref is not None and hi < len(ref) and ref[hi] != od:
            viol.append(('O2:same-cards-different-observable-in-another-jumping-order', path,
                         'after height %s the state/places differ from those of the round-robin order of the same card' % h))
            return None
    st['nodes'] += 1
    if GuardedLog.reads:
        raise HarnessError('a transition read the action log')
    if ref is None:
        for sig, _, msg in monitor_c03(comp, model) + monitor_c08(comp, model):
            viol.append((sig.replace('C03:', ''), path, msg))
    return ends


def deviate_card(card, k):
    """every jumping order of the card that differs from round-robin in at most k places (a place = one trial given to another athlete who has a trial
    left at that height; the rest of the order follows round-robin from there)"""
    st, viol = new_stats(), []
    alts = []
    ref = _dev_run(card, k, {}, None, st, viol, collect=alts)
    if ref is None:
        return st, viol
    _G_DEV['ref'] = ref
    level = [dict()]
    total = 1
    for depth in range(k):
        items = []
        for forced in level:
            # alternatives after the last forced index only (each set of deviations once)
            lo = max(forced) + 1 if forced else 0
            a2 = []
            if forced:
                _dev_run(card, k, forced, ref, new_stats(), [], collect=a2)
            else:
                a2 = alts
            for idx, others in a2:
                if idx >= lo:
                    for b in others:
                        f = dict(forced)
                        f[idx] = b
                        items.append(f)
        n = max(1, min(len(items), common.NPROC * 4))
        res = common.pmap(_dev_work, [(card, k, items[i::n]) for i in range(n)]) if len(items) > 200 else [_dev_work((card, k, items))]
        for s2, vs in res:
            for kk, v in s2.items():
                if isinstance(v, int) and not kk.startswith('max_'):
                    st[kk] += v
            viol.extend(vs)
        total += len(items)
        level = items
    st['competitions'] += 1
    st['orders_covered'] += total
    st['deviation_bound'] = k
    return st, viol
