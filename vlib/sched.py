"""sched - stateless exhaustive thread-interleaving explorer for Python code (C16).   DESIGN.md 2.3

Real threading.Thread objects run under a baton: exactly one managed thread runs at a time.  sys.settrace
delivers a 'line' event before every source line executed in a frame whose file lies under <repo>/athlib;
each such event is a scheduling point (source-line granularity inside athlib; everything between two athlib
lines - C code, the standard library, third-party modules - is one atomic step).

Enumeration is iterative context bounding exactly as in Musuvathi/Qadeer: an execution is identified by the
list of non-default choices it makes; the default at every point is 'keep running the current thread, else
the lowest enabled id'; switching away from a thread that is still enabled costs one pre-emption; all
executions with at most `bound` pre-emptions are run.  Nothing is sampled.
"""
import sys, os, threading, _thread, time, traceback
from vlib import common
from vlib.common import HarnessError

_real_allocate = _thread.allocate_lock


class SchedDeadlock(Exception):
    pass


class Diverged(HarnessError):
    pass


_CURRENT = None          # the Execution being run (one at a time per process)


class CoopLock(object):
    """Drop-in for threading.Lock/RLock installed while athlib is imported, so that a lock-based repair of the
    library is explored instead of hanging the baton scheduler.  Outside an exploration it is a plain lock."""

    def __init__(self, reentrant=False):
        self._l = _real_allocate()
        self._re = reentrant
        self._owner = None
        self._count = 0

    def acquire(self, blocking=True, timeout=-1):
        me = _thread.get_ident()
        if self._re and self._owner == me:
            self._count += 1
            return True
        ex = _CURRENT
        tid = ex.tid_of.get(me) if ex is not None else None
        if tid is None:
            ok = self._l.acquire(blocking, timeout) if blocking else self._l.acquire(False)
        else:
            ex.point(tid, ('lock', id(self)))           # acquiring is a scheduling point
            while not self._l.acquire(False):
                if not blocking:
                    return False
                ex.block(tid, self)
            ok = True
        if ok:
            self._owner, self._count = me, 1
        return ok

    def release(self):
        if self._re:
            self._count -= 1
            if self._count:
                return
        self._owner = None
        self._l.release()

    def locked(self):
        return self._l.locked()

    __enter__ = acquire

    def __exit__(self, *a):
        self.release()

    def _at_fork_reinit(self):
        self._l = _real_allocate()
        self._owner, self._count = None, 0


def import_with_coop_locks(importer):
    """run importer() with threading.Lock / RLock replaced by CoopLock"""
    saved = threading.Lock, threading.RLock
    threading.Lock = lambda: CoopLock(False)
    threading.RLock = lambda: CoopLock(True)
    try:
        return importer()
    finally:
        threading.Lock, threading.RLock = saved


# ---- bytecode granularity: sys.monitoring INSTRUCTION events on every code object defined under <repo>/athlib.
# (sys.settrace with f_trace_opcodes loses the events of the first thread that touches a code object in CPython 3.12, which makes replays diverge.)
_MON_TOOL = 3
_MON = dict(on=False, codes=None)


def _athlib_codes():
    root = os.path.join(os.path.realpath(common.REPO), 'athlib') + os.sep
    seen, out = set(), []

    def walk(code):
        if id(code) in seen:
            return
        seen.add(id(code))
        if code.co_filename.startswith(root):
            out.append(code)
        for c in code.co_consts:
            if hasattr(c, 'co_code'):
                walk(c)
    for name, m in list(sys.modules.items()):
        if m is None or not (name == 'athlib' or name.startswith('athlib.')):
            continue
        for v in list(vars(m).values()):
            for f in ([v] if not isinstance(v, type) else list(vars(v).values())):
                f = getattr(f, '__func__', f)
                f = getattr(f, 'fget', f) if isinstance(f, property) else f
                f = getattr(f, '__wrapped__', f)
                c = getattr(f, '__code__', None)
                if c is not None:
                    walk(c)
    return out, root


def _instr_cb(code, offset):
    ex = _CURRENT
    if ex is None or not ex.opcodes:
        return
    i = ex.tid_of.get(_thread.get_ident())
    if i is None or ex.finished[i]:
        return
    ex.point(i, (code.co_filename[len(ex.root):], code.co_name, offset))


def opcode_monitor(on):
    """switch instruction events for all athlib code objects on or off (process-wide; forked workers inherit the setting)"""
    mon = sys.monitoring
    if on and not _MON['on']:
        if mon.get_tool(_MON_TOOL) is None:
            mon.use_tool_id(_MON_TOOL, 'verif-sched')
        mon.register_callback(_MON_TOOL, mon.events.INSTRUCTION, _instr_cb)
        _MON['codes'] = _athlib_codes()[0]
        for c in _MON['codes']:
            mon.set_local_events(_MON_TOOL, c, mon.events.INSTRUCTION)
        _MON['on'] = True
    elif not on and _MON['on']:
        for c in _MON['codes']:
            mon.set_local_events(_MON_TOOL, c, 0)
        mon.register_callback(_MON_TOOL, mon.events.INSTRUCTION, None)
        _MON['on'] = False


class Execution(object):
    """one run of the thread bodies under a given list of choices"""

    def __init__(self, bodies, prefix, traced_prefix, atomic_codes=(), opcodes=False):
        self.opcodes = opcodes               # scheduling point before every bytecode instruction inside athlib instead of every line
        self.bodies = bodies
        self.n = len(bodies)
        # prefix: ({point index: non-default choice}, number of points it covers)
        self.prefix, self.prefix_len = prefix if isinstance(prefix, tuple) else ({k: c for k, c in enumerate(prefix) if c}, len(prefix))
        # (list of (thread, where) recorded by the parent execution, number of leading entries that must match)
        self.expect, self.expect_n = traced_prefix if traced_prefix else ([], 0)
        self.sems = [threading.Semaphore(0) for _ in bodies]
        self.done_sem = threading.Semaphore(0)
        self.finished = [False] * self.n
        self.waiting = [None] * self.n
        self.results = [None] * self.n
        self.tid_of = {}
        self.points = []                     # (thread, where, n_enabled, running_still_enabled)
        self.choices = []
        self.deadlock = False
        self.error = None
        self.atomic_codes = atomic_codes     # code objects whose frames (and callees) are one step
        self.atomic_depth = [0] * self.n
        self.root = os.path.join(os.path.realpath(common.REPO), 'athlib') + os.sep

    # -- scheduling
    def enabled(self, j):
        if self.finished[j]:
            return False
        w = self.waiting[j]
        return w is None or not w.locked()

    def choose(self, running, where):
        """record a scheduling point; returns the thread to run next"""
        k = len(self.points)
        others = [j for j in range(self.n) if j != running and self.enabled(j)]
        still = running is not None and self.enabled(running)
        en = ([running] if still else []) + others
        if not en:
            return None
        if k < self.prefix_len:
            c = self.prefix.get(k, 0)
            if k < self.expect_n and self.expect[k] is not None and self.expect[k] != (running, where):
                raise Diverged('replay diverged at point %d: expected %r, got %r' % (k, self.expect[k], (running, where)))
            if c >= len(en):
                raise Diverged('choice %d out of range (%d enabled) at point %d' % (c, len(en), k))
        else:
            c = 0
        self.points.append((running, where, len(en), still))
        self.choices.append(c)
        return en[c]

    def switch(self, me, to):
        if to != me:
            self.sems[to].release()
            self.sems[me].acquire()
            if self.deadlock:
                raise SchedDeadlock()

    def point(self, me, where):
        try:
            to = self.choose(me, where)
        except Diverged as e:
            self.error = e
            raise
        self.switch(me, to)

    def block(self, me, lock):
        """me cannot proceed until lock is free"""
        self.waiting[me] = lock
        try:
            to = self.choose(me, ('blocked', id(lock)))
            if to is None:
                self.deadlock = True
                raise SchedDeadlock()
            if to != me:
                self.switch(me, to)
        finally:
            self.waiting[me] = None

    # -- tracing
    def make_tracer(self, i):
        root = self.root
        atomic = self.atomic_codes

        def local(frame, event, arg):
            if event == 'line':
                if not self.atomic_depth[i]:
                    fn = frame.f_code.co_filename
                    self.point(i, (fn[len(root):], frame.f_lineno))
            elif event == 'return' and frame.f_code in atomic:
                self.atomic_depth[i] -= 1
            return local

        def glob(frame, event, arg):
            code = frame.f_code
            if code.co_filename.startswith(root):
                if code in atomic:
                    self.atomic_depth[i] += 1
                return local
            return None
        return glob

    def runner(self, i):
        self.sems[i].acquire()
        self.tid_of[_thread.get_ident()] = i
        if not self.opcodes:
            sys.settrace(self.make_tracer(i))
        elif not _MON['on']:
            raise HarnessError('opcode scenario without opcode_monitor(True)')
        try:
            self.results[i] = ('ok', self.bodies[i]())
        except SchedDeadlock:
            self.results[i] = ('deadlock',)
        except Diverged:
            self.results[i] = ('diverged',)
        except BaseException as e:      # noqa
            self.results[i] = ('exc', type(e).__name__, str(e)[:200])
        finally:
            sys.settrace(None)
        self.finished[i] = True
        nxt = None
        if not self.error:
            try:
                nxt = self.choose(None, ('finish', i))
            except Diverged as e:
                self.error = e
        if nxt is None:
            rest = [j for j in range(self.n) if not self.finished[j]]
            if rest:
                # blocked threads only: deadlock (or divergence) - wake them so they can unwind
                self.deadlock = True
                self.sems[rest[0]].release()
            else:
                self.done_sem.release()
        else:
            self.sems[nxt].release()

    def run(self):
        global _CURRENT
        _CURRENT = self
        ts = [threading.Thread(target=self.runner, args=(i,), daemon=True) for i in range(self.n)]
        for t in ts:
            t.start()
        try:
            first = self.choose(None, ('start',))
        except Diverged as e:
            self.error = e
            first = 0
        self.sems[first].release()
        if not self.done_sem.acquire(timeout=60):
            self.error = self.error or HarnessError('execution did not finish within 60 s (scheduler hang)')
        for t in ts:
            t.join(timeout=5)
        _CURRENT = None
        if self.error:
            raise self.error
        return self


class Scenario(object):
    """bodies: list of zero-argument callables run as threads; reset(): restore the pristine shared state;
    expected: per-thread result when run alone from the same starting state."""

    def __init__(self, name, reset, bodies, describe, atomic_codes=(), opcodes=False):
        self.name, self.reset, self.bodies, self.describe = name, reset, bodies, describe
        self.atomic_codes = atomic_codes
        self.opcodes = opcodes

    def serial(self):
        out = []
        for b in self.bodies:
            self.reset()
            try:
                out.append(('ok', b()))
            except BaseException as e:      # noqa
                out.append(('exc', type(e).__name__, str(e)[:200]))
        return out


class Explorer(object):
    def __init__(self, scenario, bound, max_exec=None):
        self.sc = scenario
        self.bound = bound
        self.max_exec = max_exec
        self.execs = 0
        self.points_total = 0
        self.max_points = 0
        self.outcomes = {}
        self.viol = []
        self.capped = False
        self.by_bound = {}
        self.expected = scenario.serial()

    def run_one(self, prefix, expect):
        self.sc.reset()
        x = Execution(self.sc.bodies, prefix, expect, self.sc.atomic_codes, self.sc.opcodes).run()
        self.execs += 1
        self.points_total += len(x.points)
        self.max_points = max(self.max_points, len(x.points))
        return x

    def check(self, x, cost):
        out = tuple(x.results)
        key = repr(out)
        self.outcomes[key] = self.outcomes.get(key, 0) + 1
        self.by_bound[cost] = self.by_bound.get(cost, 0) + 1
        bad = [i for i in range(x.n) if x.results[i] != self.expected[i]]
        if bad or x.deadlock:
            i = bad[0] if bad else 0
            if sum(1 for v in self.viol) < 10:
                sched = compress(x)
                self.viol.append(dict(thread=i, got=x.results[i], expected=self.expected[i], schedule=sched,
                                      choices=[(k, c) for k, c in enumerate(x.choices) if c], preemptions=cost, deadlock=x.deadlock))
            return False
        return True

    def preemptions_before(self, x, i):
        return self._cum(x)[i]

    def _sparse(self, x, i, alt):
        nz = getattr(x, '_nz', None)
        if nz is None:
            nz = x._nz = [(k, c) for k, c in enumerate(x.choices) if c]
        d = {k: c for k, c in nz if k < i}
        d[i] = alt
        return (d, i + 1)

    def _cum(self, x):
        """cum[i] = pre-emptions spent strictly before point i"""
        cum = getattr(x, '_cum', None)
        if cum is None:
            cum = [0]
            for k in range(len(x.points)):
                cum.append(cum[-1] + (1 if x.choices[k] and x.points[k][3] else 0))
            x._cum = cum
        return cum

    def explore(self, prefix, expect):
        """prefix = ({index: choice}, length); expect = (trace list, n) of the parent execution or None"""
        if self.max_exec and self.execs >= self.max_exec:
            self.capped = True
            return
        x = self.run_one(prefix, expect)
        self.check(x, self.preemptions_before(x, len(x.points)))
        traced = [(p[0], p[1]) for p in x.points]
        base = None
        for i in range(prefix[1], len(x.points)):
            (_, _, nen, still) = x.points[i]
            if nen < 2:
                continue
            cost = self.preemptions_before(x, i) + (1 if still else 0)
            if cost > self.bound:
                continue
            for alt in range(1, nen):
                self.explore(self._sparse(x, i, alt), (traced, i + 1))

    def frontier(self):
        """Work items for parallel exploration.  The root and every execution reached by free choices only (no
        pre-emption spent) are run and checked here; each alternative that spends the first pre-emption becomes one
        item (sparse prefix, length, expected last point) whose subtree a worker explores."""
        items = []

        def expand(prefix, expect):
            x = self.run_one(prefix, expect)
            self.check(x, 0)
            traced = [(p[0], p[1]) for p in x.points]
            for i in range(prefix[1], len(x.points)):
                (_, _, nen, still) = x.points[i]
                if nen < 2:
                    continue
                for alt in range(1, nen):
                    child = self._sparse(x, i, alt)
                    if still:
                        if self.bound >= 1:
                            items.append((child[0], child[1], traced[i]))
                    else:
                        expand(child, (traced, i + 1))
        expand(({}, 0), None)
        return items

    def explore_item(self, item):
        d, n, last = item
        self.explore((d, n), ([None] * (n - 1) + [last], n))


def compress(x):
    """human-readable schedule: runs of (thread, first line .. last line)"""
    out = []
    cur = None
    for (running, where, nen, still), c in zip(x.points, x.choices):
        if running is None:
            continue
        w = '%s:%s' % where if isinstance(where, tuple) and len(where) == 2 and isinstance(where[1], int) else \
            '%s:%s@%s' % where if isinstance(where, tuple) and len(where) == 3 else str(where)
        if cur and cur[0] == running:
            cur[2] = w
            cur[3] += 1
        else:
            cur = [running, w, w, 1]
            out.append(cur)
    return [dict(thread=t, first=a, last=b, lines=n) for t, a, b, n in out]
