"""Reference model of a high-jump / pole-vault competition, written from the rule statements of
C02/C03 (not from athlib/highjump.py).  Boring on purpose: heights + result cards + a phase, and a
little jump-off bookkeeping.  It never sees implementation flags.

Heights are plain ints (only their order matters).  Cards: bib -> list of strings, one per height,
trailing empties allowed.  Calls are tuples:
    ('add', bib)  ('bar', h)  ('o'|'x'|'-'|'r', bib)
"""
import copy

RANK = dict(scheduled=0, started=1, jumpoff=2, won=2, finished=3, drawn=3)
TERMINAL = ('finished', 'drawn')


# ------------------------------------------------------------------------------------------------
# pure card functions

def cell(card, i):
    return card[i] if i < len(card) else ''


def strip_card(card):
    c = list(card)
    while c and c[-1] == '':
        c.pop()
    return c


def has_retired(card):
    return any(c.endswith('r') for c in card)


def consecutive_failures(card, upto=None):
    """failures since the last clearance, passes do not reset (all cells up to index `upto` exclusive)"""
    n = 0
    for c in (card if upto is None else card[:upto]):
        for ch in c:
            if ch == 'x':
                n += 1
            elif ch == 'o':
                n = 0
    return n


def best_of(card, heights):
    """greatest height with a clearance, or None"""
    b = None
    for i, c in enumerate(card):
        if 'o' in c and (b is None or heights[i] > b):
            b = heights[i]
    return b


def countback_key(card, heights, ncols=None):
    """(-(best), failures at best, failures up to and including best) over the first ncols columns.
    The best height is attributed to its *first* clearance column (a height can recur in a jump-off)."""
    n = len(heights) if ncols is None else ncols
    bi = None
    for i, c in enumerate(card[:n]):
        if 'o' in c and (bi is None or heights[i] > heights[bi]):
            bi = i
    if bi is None:
        return (1, 0, 0, 0)
    at = card[bi].count('x')
    upto = at + sum(c.count('x') for c in card[:bi])
    return (0, -heights[bi], at, upto)


def competition_ranking(keys):
    """bib -> place (1,2,2,4) from bib -> key (smaller is better)"""
    order = sorted(keys, key=lambda b: keys[b])
    place = {}
    for i, b in enumerate(order):
        if i and keys[b] == keys[order[i - 1]]:
            place[b] = place[order[i - 1]]
        else:
            place[b] = i + 1
    return place


# ------------------------------------------------------------------------------------------------

class Model(object):
    def __init__(self):
        self.phase = 'scheduled'
        self.heights = []
        self.order = []           # bibs in joining order
        self.cards = {}
        # regular-phase columns end here once a jump-off has begun (None before)
        self.jo_from = None
        self.jo_tied = ()         # the group tied for first when the jump-off began
        self.jo_alive = ()        # participants still in the jump-off
        self.jo_acted = ()        # alive participants who have used their attempt at the current bar
        self.jo_round = ()        # participants alive when the current round (bar setting) began
        self.irregular = 0        # departures from the rule-conforming jump-off (fringe zone depth)
        self.nohg = False         # tie with no clearance at all (statement silent: follow the implementation)

    def clone(self):
        m = Model.__new__(Model)
        m.__dict__.update(self.__dict__)
        m.heights = list(self.heights)
        m.order = list(self.order)
        m.cards = {b: list(c) for b, c in self.cards.items()}
        return m

    def canon(self):
        return (self.phase, tuple(self.heights), tuple(self.order),
                tuple((b, tuple(strip_card(self.cards[b]))) for b in self.order),
                self.jo_from, tuple(sorted(self.jo_tied)), tuple(sorted(self.jo_alive)),
                tuple(sorted(self.jo_acted)), tuple(sorted(self.jo_round)), self.irregular)

    # -- derived facts
    def cur(self):
        return len(self.heights) - 1

    def out_regular(self, b):
        c = self.cards[b]
        return has_retired(c) or consecutive_failures(c) >= 3

    def done_here(self, b):
        c = cell(self.cards[b], self.cur())
        return 'o' in c or '-' in c

    def alive_regular(self):
        return [b for b in self.order if not self.out_regular(b)]

    # -- which calls do the rules allow?  (None = the statements do not say)
    def allowed(self, call):
        kind, arg = call
        if kind == 'addnb':           # registration without a bib: the athlete gets the default bib '0'
            kind = 'add'
        ph = self.phase
        if kind == 'q':
            return True           # a read-only query: always possible, never changes anything under the rules
        if kind == 'add':
            return ph == 'scheduled' and not self.heights and arg not in self.cards
        if kind == 'bar':
            if ph in TERMINAL:
                return False
            if ph == 'jumpoff':
                return True
            last = self.heights[-1] if self.heights else None
            if last is None:
                return True if arg > 0 else None      # a first bar at or below zero: not covered by the statement
            return arg > last
        b = arg
        if b not in self.cards:
            return None
        if ph in ('scheduled',) + TERMINAL or not self.heights:
            return False
        c = self.cards[b]
        if has_retired(c):
            return False
        if ph == 'jumpoff':
            if b not in self.jo_alive:
                return False
            return b not in self.jo_acted
        # started / won
        if consecutive_failures(c) >= 3:
            return False
        if self.done_here(b):
            return False
        return len(cell(c, self.cur())) < 3

    def is_core_bar(self):
        """a jump-off bar move is rule-conforming once every alive participant has acted"""
        return self.phase != 'jumpoff' or set(self.jo_alive) <= set(self.jo_acted)

    # -- transition (call is known to have been accepted)
    def step(self, call, impl_state=None):
        kind, arg = call
        if kind == 'addnb':
            kind = 'add'
        if kind == 'q':
            self.qsteps = getattr(self, 'qsteps', 0) + 1
            return
        if kind == 'add':
            self.order.append(arg)
            self.cards[arg] = []
            return
        if kind == 'bar':
            if self.phase == 'scheduled':
                self.phase = 'started'
            if self.phase == 'jumpoff':
                if not self.is_core_bar():
                    self.irregular += 1
                self.jo_acted = ()
                self.jo_round = tuple(self.jo_alive)
            self.heights.append(arg)
            return
        b = arg
        c = self.cards[b]
        while len(c) < len(self.heights):
            c.append('')
        c[-1] += kind
        if self.phase == 'jumpoff':
            if kind == '-':
                self.irregular += 1           # the rules require a jump or a retirement: fringe
            alive = list(self.jo_alive)
            if kind in 'xr' and b in alive:
                alive.remove(b)
            self.jo_alive = tuple(alive)
            self.jo_acted = tuple(self.jo_acted) + (b,)
            if not alive:
                again = [x for x in self.jo_round if not has_retired(self.cards[x])]
                if again:
                    self.jo_alive = tuple(again)
                    self.jo_acted = tuple(again)      # no further attempt until the bar moves
                    self.jo_round = tuple(again)
                else:
                    self.phase = 'drawn'
            elif len(alive) == 1 and 'o' in cell(self.cards[alive[0]], self.cur()):
                self.phase = 'finished'
            return
        # regular phase
        alive = self.alive_regular()
        if not alive:
            keys = {x: countback_key(self.cards[x], self.heights) for x in self.order}
            top = min(keys.values())
            tied = [x for x in self.order if keys[x] == top]
            if len(tied) >= 2:
                self.nohg = top[0] == 1
                if self.nohg and impl_state == 'finished':
                    self.phase = 'finished'       # no-height tie: either reading is admitted
                    return
                again = [x for x in tied if not has_retired(self.cards[x])]
                self.jo_from = len(self.heights)
                self.jo_tied = tuple(tied)
                if again:
                    self.phase = 'jumpoff'
                    self.jo_alive = tuple(again)
                    self.jo_acted = tuple(again)
                    self.jo_round = tuple(again)
                else:
                    self.phase = 'drawn'
            else:
                self.phase = 'finished'
        elif len(alive) == 1 and 'o' in cell(self.cards[alive[0]], self.cur()):
            self.phase = 'won'


# ------------------------------------------------------------------------------------------------
# C03 oracle: places from the result cards alone (terminal states)

def expected_places(model, obs_state):
    """Returns (checks, notes): a list of (bib, predicate description, allowed set of places) computed
    from the cards.  '' = unplaced."""
    m = model
    ncols = m.jo_from if m.jo_from is not None else len(m.heights)
    keys = {b: countback_key(m.cards[b], m.heights, ncols) for b in m.order}
    base = competition_ranking(keys)
    req = {}
    for b in m.order:
        if best_of(m.cards[b], m.heights) is None:
            req[b] = {''}
        else:
            req[b] = {base[b]}
    if m.jo_from is None:
        return req
    T = list(m.jo_tied)
    nT = len(T)
    placed_T = [b for b in T if best_of(m.cards[b], m.heights) is not None]
    if obs_state == 'finished':
        surv = list(m.jo_alive)
        for b in placed_T:
            req[b] = set(range(2, nT + 1))
        if len(surv) == 1 and best_of(m.cards[surv[0]], m.heights) is not None:
            req[surv[0]] = {1}
    elif obs_state == 'drawn':
        last = [b for b in m.jo_round]
        for b in placed_T:
            req[b] = set(range(1, nT + 1))
        for b in last:
            if b in placed_T:
                req[b] = {1}
    return req
