"""Call-order pass shared by the grid checks: the answer of a call must not depend on what was called before it.

A small alphabet of representative calls (function path, args, kwargs); from a restored pristine state every ordered pair (a, b) and every
a-b-a triple is executed and the last answer is compared with the answer of the same call made first.  This is the 'start from non-initial
states' part of the exploration for functions that are meant to be pure: it is what finds memo tables keyed too coarsely, scratch state left on
shared objects and tables patched in place.  Exhaustive over the alphabet; the alphabet is a covering choice stated by each check."""
from vlib import common, shared
from vlib.common import Acc, pmap, merge

_G = {}


def resolve(path):
    """'athlib.x' -> attribute of the package; 'athlib.mod:fn' -> attribute fn of the real module object (names can be shadowed by functions)"""
    athlib = common.bind_repo()
    if ':' in path:
        m, f = path.split(':')
        o = common.mod(m)
        for part in f.split('.'):
            o = getattr(o, part)
        return o
    o = athlib
    for part in path.split('.')[1:]:
        o = getattr(o, part)
    return o


def outcome(call):
    path, args, kw = call
    try:
        r = resolve(path)(*args, **kw)
        if isinstance(r, float):
            r = round(r, 12)
        return ('ret', repr(r))
    except Exception as e:     # noqa
        return ('exc', type(e).__name__)


def _setup():
    if 'st' not in _G:
        common.bind_repo()
        for c in _G['calls']:
            resolve(c[0])
        _G['st'] = shared.SharedState('athlib')
        _G['pristine'] = _G['st'].capture()
    return _G


def _work(chunk):
    firsts, = chunk
    G = _setup()
    st, pristine, calls = G['st'], G['pristine'], G['calls']
    acc = Acc()
    alone = []
    for c in calls:
        st.restore(pristine)
        alone.append(outcome(c))
    for i in firsts:
        a = calls[i]
        for j, b in enumerate(calls):
            st.restore(pristine)
            ra = outcome(a)
            rb = outcome(b)
            ra2 = outcome(a)
            for (what, got, want, hist) in (('first call', ra, alone[i], [a]), ('second call', rb, alone[j], [a, b]), ('third call', ra2, alone[i], [a, b, a])):
                acc.n += 1
                if got != want:
                    acc.bad('answer-depends-on-earlier-calls:%s' % hist[-1][0].split(':')[-1].split('.')[-1], dict(history=[list(map(repr, h)) for h in hist]),
                            '%s of the history gives %r; made first it gives %r' % (what, got, want))
                else:
                    acc.nontrivial += 1
    st.restore(pristine)
    if not acc.samples and firsts:
        acc.samples.append(dict(order_pass=[repr(calls[firsts[0]]), repr(calls[-1])], alone=list(alone[firsts[0]])))
    return acc.pack()


def part(rep, calls, label='call-order pass'):
    """run the pass and fold it into the report"""
    calls = [(c[0], tuple(c[1]), dict(c[2]) if len(c) > 2 else {}) for c in calls]
    _G.clear()
    _G['calls'] = calls
    n = len(calls)
    nchunks = min(n, common.NPROC)
    t = merge(rep, pmap(_work, [(list(range(i, n, nchunks)),) for i in range(nchunks)]),
              part='%s: %d calls, all ordered pairs (a, b) and triples (a, b, a) from a restored state, each answer vs the same call made first' % (label, n))
    rep.assumptions.append('call-order pass: the alphabet of %d calls is a covering choice (one call per code path the check knows), the pairs and triples over it are exhaustive' % n)
    return t
