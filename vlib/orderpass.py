"""Call-order pass shared by the grid checks: the answer of a call must not depend on what was called before it.

A small alphabet of representative calls (function path, args, kwargs); from a restored pristine state every ordered pair (a, b) and every
a-b-a triple is executed and the last answer is compared with the answer of the same call made first.  This is the 'start from non-initial
states' part of the exploration for functions that are meant to be pure: it is what finds memo tables keyed too coarsely, scratch state left on
shared objects and tables patched in place.  Exhaustive over the alphabet; the alphabet is a covering choice stated by each check."""
from vlib import common, shared
from vlib.common import Acc, pmap, merge

_G = {}


def resolve(path):
    """'athlib.x' -> attribute of the package; 'athlib.mod:fn' -> attribute fn of the real module object (names can be shadowed by functions)"""
    athlib = common.bind_repo()
    if path.startswith('verif:'):
        from vlib import callhelpers
        return getattr(callhelpers, path[6:])
    if ':' in path:
        m, f = path.split(':')
        o = common.mod(m)
        for part in f.split('.'):
            o = getattr(o, part)
        return o
    o = athlib
    for part in path.split('.')[1:]:
        o = getattr(o, part)
    return o


def outcome(call):
    path, args, kw = call
    try:
        r = resolve(path)(*args, **kw)
        if isinstance(r, float):
            r = round(r, 12)
        return ('ret', repr(r))
    except Exception as e:     # noqa
        return ('exc', type(e).__name__)


def _setup():
    if 'st' not in _G:
        common.bind_repo()
        for c in _G['calls']:
            resolve(c[0])
        _G['st'] = shared.SharedState('athlib')
        _G['pristine'] = _G['st'].capture()
    return _G


def _work(chunk):
    firsts, = chunk
    G = _setup()
    st, pristine, calls = G['st'], G['pristine'], G['calls']
    acc = Acc()
    alone = []
    for c in calls:
        st.restore(pristine)
        alone.append(outcome(c))
    for i in firsts:
        a = calls[i]
        for j, b in enumerate(calls):
            st.restore(pristine)
            ra = outcome(a)
            rb = outcome(b)
            ra2 = outcome(a)
            for (what, got, want, hist) in (('first call', ra, alone[i], [a]), ('second call', rb, alone[j], [a, b]), ('third call', ra2, alone[i], [a, b, a])):
                acc.n += 1
                if got != want:
                    acc.bad('answer-depends-on-earlier-calls:%s' % hist[-1][0].split(':')[-1].split('.')[-1], dict(history=[list(map(repr, h)) for h in hist]),
                            '%s of the history gives %r; made first it gives %r' % (what, got, want))
                else:
                    acc.nontrivial += 1
    st.restore(pristine)
    if not acc.samples and firsts:
        acc.samples.append(dict(order_pass=[repr(calls[firsts[0]]), repr(calls[-1])], alone=list(alone[firsts[0]])))
    return acc.pack()


def with_conventions(calls, per_fn=4):
    """the alphabet extended by other ways of WRITING some of its calls: all arguments by keyword in signature order, by keyword in reverse order,
    first argument positional and the rest by keyword in reverse order, and only the non-default trailing arguments by keyword - the same call as far
    as Python is concerned, but not for a memo keyed on how the arguments were passed"""
    import inspect
    out = list(calls)
    ident = lambda c: (c[0], c[1], tuple(c[2].items()))
    have = {ident(c) for c in out}
    used = {}
    for path, args, kw in calls:
        if used.get(path, 0) >= per_fn:
            continue
        try:
            ps = [p_ for p_ in inspect.signature(resolve(path)).parameters.values()]
        except (TypeError, ValueError):
            continue
        if any(p_.kind not in (p_.POSITIONAL_OR_KEYWORD,) for p_ in ps) or len(args) > len(ps):
            continue
        names = [p_.name for p_ in ps]
        full = dict(zip(names, args))
        if set(kw) - set(names) or set(kw) & set(full):
            continue
        full.update(kw)
        given = [n for n in names if n in full]
        if len(given) < 2:
            continue
        used[path] = used.get(path, 0) + 1
        vs = [(path, (), {n: full[n] for n in given}),
              (path, (), {n: full[n] for n in reversed(given)}),
              (path, (full[given[0]],), {n: full[n] for n in reversed(given[1:])}) if given[0] == names[0] else None]
        # contiguous prefix positionally (keywords folded into positions)
        k = 0
        while k < len(names) and names[k] in full:
            k += 1
        if k == len(given):
            vs.append((path, tuple(full[n] for n in names[:k]), {}))
            vs.append((path, tuple(full[n] for n in names[:k - 1]), {names[k - 1]: full[names[k - 1]]}))
        if k == len(given) and k >= 2:
            a, b = names[k - 2], names[k - 1]
            # prefix positional, the last two by keyword in reverse order
            vs.append((path, tuple(full[n] for n in names[:k - 2]), {b: full[b], a: full[a]}))
            if type(full[a]) is type(full[b]) and full[a] != full[b]:
                # the neighbouring call with the last two VALUES exchanged (another call altogether), written positionally and with the two keywords reversed:
                # its values appear in the same written order as the original's
                vs.append((path, tuple(full[n] for n in names[:k - 2]) + (full[b], full[a]), {}))
                vs.append((path, tuple(full[n] for n in names[:k - 2]), {b: full[a], a: full[b]}))
        for v in vs:
            if v is not None and ident(v) not in have:
                have.add(ident(v))
                out.append(v)
    return out


def part(rep, calls, label='call-order pass', conventions=True):
    """run the pass and fold it into the report"""
    calls = [(c[0], tuple(c[1]), dict(c[2]) if len(c) > 2 else {}) for c in calls]
    if conventions:
        common.bind_repo()
        n0 = len(calls)
        calls = with_conventions(calls)
        label += ' (+%d calls written with other calling conventions)' % (len(calls) - n0)
    _G.clear()
    _G['calls'] = calls
    n = len(calls)
    nchunks = min(n, common.NPROC)
    t = merge(rep, pmap(_work, [(list(range(i, n, nchunks)),) for i in range(nchunks)]),
              part='%s: %d calls, all ordered pairs (a, b) and triples (a, b, a) from a restored state, each answer vs the same call made first' % (label, n))
    rep.assumptions.append('call-order pass: the alphabet of %d calls is a covering choice (one call per code path the check knows), the pairs and triples over it are exhaustive' % n)
    return t


def _work_groups(chunk):
    gids, = chunk
    G = _setup()
    st, pristine, groups = G['st'], G['pristine'], G['groups']
    acc = Acc()
    for gi in gids:
        calls = groups[gi]
        alone = []
        for c in calls:
            st.restore(pristine)
            alone.append(outcome(c))
        for i, a in enumerate(calls):
            for j, b in enumerate(calls):
                st.restore(pristine)
                ra = outcome(a)
                rb = outcome(b)
                for (what, got, want, hist) in (('first call', ra, alone[i], [a]), ('second call', rb, alone[j], [a, b])):
                    acc.n += 1
                    if got != want:
                        acc.bad('answer-depends-on-earlier-calls:%s' % hist[-1][0].split(':')[-1].split('.')[-1], dict(history=[list(map(repr, h)) for h in hist]),
                                '%s of the history gives %r; made first it gives %r' % (what, got, want))
                    else:
                        acc.nontrivial += 1
    st.restore(pristine)
    if not acc.samples and gids:
        acc.samples.append(dict(order_pass_group=[repr(c) for c in groups[gids[0]][:2]]))
    return acc.pack()


def part_groups(rep, groups, label):
    """as part(), but the alphabet comes in groups and only the ordered pairs inside a group are run (one worker pool for all groups)"""
    groups = [[(c[0], tuple(c[1]), dict(c[2]) if len(c) > 2 else {}) for c in g] for g in groups]
    _G.clear()
    _G['groups'] = groups
    _G['calls'] = [c for g in groups for c in g]
    n = len(groups)
    nchunks = max(1, min(n, common.NPROC * 2))
    t = merge(rep, pmap(_work_groups, [(list(range(i, n, nchunks)),) for i in range(nchunks)]),
              part='%s: %d groups, %d calls, all ordered pairs inside each group from a restored state, each answer vs the same call made first' % (label, n, len(_G['calls'])))
    return t


# ------------------------------------------------------------------------------------------------
# replay of the violations of the call-order, cross-API and interpreter-mode passes (their cases are lists of repr()'d calls)

def _is_call(h):
    return isinstance(h, list) and len(h) == 3 and isinstance(h[0], str) and h[0].startswith(("'athlib", "'verif:"))


def is_generic(rec):
    c = rec.get('case', {})
    return isinstance(c, dict) and (('interpreter' in c and 'call' in c) or ('history' in c and c['history'] and all(_is_call(h) for h in c['history'])))


def _ev(text):
    import datetime, decimal, collections, types
    return eval(text, {'datetime': datetime, 'Decimal': decimal.Decimal, 'OrderedDict': collections.OrderedDict, 'inf': float('inf'), 'nan': float('nan')})


def replay_generic(rec):
    import subprocess, sys
    c = rec['case']
    print(rec['sig'], '-', rec['msg'])
    if 'interpreter' in c:
        code = ("import sys; sys.path.insert(0, %r); from vlib import common, orderpass; common.bind_repo(); "
                "c = orderpass._ev(%r); print('optimize =', sys.flags.optimize, '->', orderpass.outcome(c))" % (common.VERIF, c['call']))
        for flag in ('', c['interpreter']):
            if flag == 'debug-logging':
                subprocess.run([sys.executable, '-c', "import logging; logging.basicConfig(level=logging.DEBUG, handlers=[logging.NullHandler()]); print('DEBUG logging on'); " + code])
            elif flag == 'line-tracer':
                subprocess.run([sys.executable, '-c', "import sys\ndef _t(f, e, a):\n    f.f_locals\n    return _t\nsys.settrace(_t); print('line tracer reading f_locals'); " + code])
            elif flag == 'prec=3':
                subprocess.run([sys.executable, '-c', "import decimal; decimal.getcontext().prec = 3; print('ambient decimal precision 3'); " + code])
            elif flag.startswith('decimal-'):
                subprocess.run([sys.executable, '-c', "import decimal; decimal.getcontext().rounding = decimal.%s; print('ambient decimal rounding %s'); " % (flag[8:], flag[8:]) + code])
            else:
                subprocess.run([sys.executable] + ([flag] if flag else []) + ['-c', code])
        return 1
    common.bind_repo()
    from vlib import callhelpers
    with callhelpers.table_dir():
        return _replay_history(c)


def _replay_history(c):
    calls = [(_ev(h[0]), _ev(h[1]), _ev(h[2])) for h in c['history']]
    for x in calls:
        resolve(x[0])
    st = shared.SharedState('athlib')
    pristine = st.capture()
    print('the history, from the pristine state:')
    for x in calls:
        print('   %r -> %r' % (x, outcome(x)))
    st.restore(pristine)
    print('the last call made first: %r' % (outcome(calls[-1]),))
    return 1
