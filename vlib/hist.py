"""hist - call-history explorer for the validation caches (C19).   DESIGN.md 2.4

A call is a tuple ('sv', schema, validator name, expect_failure) or ('va', document, schema, expect_failure).
Reference outcomes come from fresh interpreter processes (fresh_outcomes); histories are executed in-process from a
restored pristine state and every call's outcome is compared with its fresh outcome."""
import os, sys, io, json, subprocess, contextlib
from vlib import common

FRESH_SCRIPT = r'''
import sys, os, json, io, contextlib
sys.path.insert(0, %(repo)r)
import socket
NET = []
def _deny(*a, **k):
    NET.append(repr(a)[:200]); raise OSError('network access attempted by the check subject')
socket.socket.connect = _deny
socket.create_connection = _deny
socket.getaddrinfo = _deny
import urllib.request
_urlopen = urllib.request.urlopen
def _urlopen_local(url, *a, **k):
    u = url if isinstance(url, str) else url.full_url
    if not u.lower().startswith('file:'):
        return _deny(u)
    return _urlopen(url, *a, **k)
urllib.request.urlopen = _urlopen_local
try:
    import requests
    requests.get = _deny
    requests.Session.request = _deny
except Exception:
    pass
import jsonschema
import athlib.utils as U
call = json.loads(%(call)r)
buf = io.StringIO()
try:
    with contextlib.redirect_stdout(buf):
        if call[0] == 'sv':
            if call[2].startswith('ext:'):
                V = jsonschema.validators.extend(getattr(jsonschema, call[2][4:]), {})
            elif call[2].startswith('sub:'):
                _B = getattr(jsonschema, call[2][4:])
                V = type('HouseRules', (_B,), dict(META_SCHEMA=dict(_B.META_SCHEMA, required=['$comment'])))
            else:
                V = getattr(jsonschema, call[2])
            r = U.schema_valid(call[1], V, call[3])
        else:
            r = U.valid_against_schema(call[1], call[2], call[3])
    out = ['ret', r]
except BaseException as e:
    out = ['exc', type(e).__name__]
print(json.dumps(dict(out=out, net=NET)))
'''


def fresh_one(args):
    call, cwd = args
    code = FRESH_SCRIPT % dict(repo=common.REPO, call=json.dumps(call))
    env = dict(os.environ, PYTHONHASHSEED='0')
    p = subprocess.run([sys.executable, '-c', code], cwd=cwd, capture_output=True, text=True, env=env, timeout=300)
    if p.returncode != 0 or not p.stdout.strip():
        raise common.HarnessError('fresh-process run failed for %r: %s' % (call, p.stderr[-500:]))
    d = json.loads(p.stdout.strip().splitlines()[-1])
    return tuple(d['out']), d['net']


def fresh_outcomes(calls, cwds):
    jobs = [(c, w) for c in calls for w in cwds]
    res = common.pmap(fresh_one, jobs)
    out = {}
    for (c, w), r in zip(jobs, res):
        out[(tuple(c), w)] = r
    return out


_EXT = {}


def validator_of(jsonschema, name):
    """a validator class by name; 'ext:<name>' = a class derived from it with jsonschema.validators.extend (one object per process)"""
    if name.startswith('sub:'):
        # a class-statement subclass with a stricter meta-schema of its own (house rules: every schema must carry a '$comment'): attribute look-ups on
        # it fall through to the parent class
        if name not in _EXT:
            B = getattr(jsonschema, name[4:])
            _EXT[name] = type('HouseRules', (B,), dict(META_SCHEMA=dict(B.META_SCHEMA, required=['$comment'])))
        return _EXT[name]
    if not name.startswith('ext:'):
        return getattr(jsonschema, name)
    if name not in _EXT:
        _EXT[name] = jsonschema.validators.extend(getattr(jsonschema, name[4:]), {})
    return _EXT[name]


def execute(U, jsonschema, call):
    """one real call in this process -> outcome tuple"""
    buf = io.StringIO()
    try:
        with contextlib.redirect_stdout(buf):
            if call[0] == 'sv':
                r = U.schema_valid(call[1], validator_of(jsonschema, call[2]), call[3])
            else:
                r = U.valid_against_schema(call[1], call[2], call[3])
        return ('ret', r)
    except BaseException as e:      # noqa
        return ('exc', type(e).__name__)


def cache_state(U):
    """ordered contents of the two caches (the explored state)"""
    def k(x):
        return tuple(getattr(p, '__name__', p) if not isinstance(p, (str, bool, int, type(None))) else p for p in (x if isinstance(x, tuple) else (x,)))
    return (tuple((k(a), b) for a, b in U._schema_valid_cache.items()), tuple((k(a), b) for a, b in U._valid_against_schema_cache.items()))
