"""hjmc - explicit-state exploration of the real HighJumpCompetition object (C02, C03, C08).

Level-synchronous BFS.  A state is a live competition object (carried as a pickle); every call of the
alphabet - legal or not - is applied to a fresh clone of every state.  Refused calls are checked and
dropped, accepted calls are stepped in lock-step through the reference model (vlib/hjmodel.py) and
produce successors.  See DESIGN.md 2.1.
"""
import pickle, sys, os, time
from decimal import Decimal
from vlib import common
from vlib.common import digest, HarnessError
from vlib import hjmodel
from vlib.hjmodel import Model, RANK, strip_card

BIBS = ['A', 'B', 'C', 'D', 'E', 'F', 'G']
LETTER = {'o': 'cleared', 'x': 'failed', '-': 'passed', 'r': 'retired'}
FIRST_HEIGHT = 2       # leaves room for a jump-off bar below every earlier best
MIN_HEIGHT = 1
R2_IN_FRINGE = False    # after a pass in a jump-off the import (which ignores pass marks) legitimately differs in standings: "explicit pass marks aside"
QUERY_STEPS = 2     # state-changing read-only queries followed along one history


class GuardedLog(list):
    """The action log, instrumented from outside: transitions may only append to it.  Any read while
    `armed` invalidates the abstraction 'the future does not depend on the log' used for deduplication."""
    armed = False
    reads = 0

    def _r(self):
        if GuardedLog.armed:
            GuardedLog.reads += 1

    def __iter__(self):
        self._r(); return list.__iter__(self)

    def __getitem__(self, i):
        self._r(); return list.__getitem__(self, i)

    def __len__(self):
        self._r(); return list.__len__(self)

    def __contains__(self, x):
        self._r(); return list.__contains__(self, x)

    def __reversed__(self):
        self._r(); return list.__reversed__(self)

    def __eq__(self, o):
        self._r(); return list.__eq__(self, o)

    __hash__ = None

    def plain(self):
        return list(list.__iter__(self))


_CACHE = {}


def HJ():
    if 'hj' not in _CACHE:
        common.bind_repo()
        from athlib.highjump import HighJumpCompetition
        _CACHE['hj'] = HighJumpCompetition
    return _CACHE['hj']


def RV():
    if 'rv' not in _CACHE:
        common.bind_repo()
        from athlib.exceptions import RuleViolation
        _CACHE['rv'] = RuleViolation
    return _CACHE['rv']


COMP_OPTS = {}      # public option attributes set on every new competition (e.g. verbose=1: the diagnostic flag)


def new_comp():
    c = HJ()()
    c.actions = GuardedLog()
    for k, v in COMP_OPTS.items():
        setattr(c, k, v)
    return c


# ------------------------------------------------------------------------------------------------
# applying calls

QUERIES = ['to_matrix', 'trials', 'trial_objs', 'remaining', 'eliminated', 'is_finished', 'is_running', 'print_ranking',
           'jumper.place', 'jumper.ranking_key', 'jumper.has_retired', 'from_actions']


def run_query(comp, name):
    """one read-only query of the public surface (properties are read, methods called without arguments)"""
    import io, contextlib
    with contextlib.redirect_stdout(io.StringIO()):
        if name.startswith('jumper.'):
            for j in list(comp.jumpers):
                getattr(j, name[7:])
            return
        if name == 'from_actions':
            comp.from_actions(list(comp.actions.plain()) if isinstance(comp.actions, GuardedLog) else None)
            return
        v = getattr(comp, name)
        if callable(v):
            v()


def apply_call(comp, call):
    """Apply one alphabet call through the public API.  Returns None if accepted, else the exception."""
    kind, arg = call
    if kind == 'q':
        try:
            run_query(comp, arg)
            return None
        except Exception as e:     # noqa
            return e
    if COMP_OPTS:
        import io, contextlib
        with contextlib.redirect_stdout(io.StringIO()):
            return _apply_call(comp, call)
    return _apply_call(comp, call)


def _apply_call(comp, call):
    kind, arg = call
    GuardedLog.armed = True
    try:
        if kind == 'addnb':
            comp.add_jumper(order=9)                       # no bib given: the default bib '0'
        elif kind == 'add':
            comp.add_jumper(bib=benc(arg), order=oenc((BIBS.index(arg) + 1) if arg in BIBS else 9))
        elif kind == 'bar':
            comp.set_bar_height(enc(arg))
        else:
            getattr(comp, LETTER[kind])(benc(arg))
        return None
    except Exception as e:     # noqa - every exception type is of interest
        return e
    finally:
        GuardedLog.armed = False


def log_entry(call):
    kind, arg = call
    if kind == 'addnb':
        return ('add_jumper', dict(order=9))
    if kind == 'add':
        return ('add_jumper', dict(bib=benc(arg), order=oenc((BIBS.index(arg) + 1) if arg in BIBS else 9)))
    if kind == 'bar':
        return ('set_bar_height', enc(arg))
    return (LETTER[kind], benc(arg))


# ------------------------------------------------------------------------------------------------
# snapshots

def _cv(v, jid):
    if isinstance(v, Decimal):
        return ('D', str(v.normalize()))
    if isinstance(v, (str, int, float, bool, type(None))):
        return v
    if id(v) in jid:
        return ('J', jid[id(v)])
    if isinstance(v, (list, tuple)):
        return tuple(_cv(x, jid) for x in v)
    if isinstance(v, dict):
        return tuple(sorted((repr(k), _cv(x, jid)) for k, x in v.items()))
    if isinstance(v, (set, frozenset)):
        return tuple(sorted(repr(_cv(x, jid)) for x in v))
    return ('?', repr(v))


def internal(comp, with_log=False):
    """Canonical *internal* snapshot by reflection: every instance attribute of the competition and of
    every jumper (finer than the observable on purpose).  The log is left out unless asked for."""
    jid = {id(j): bdec(j.bib) for j in comp.jumpers}
    d = comp.__dict__
    top = tuple((k, _cv(d[k], jid)) for k in sorted(d) if k != 'actions')
    js = tuple((bdec(j.bib), tuple((k, _cv(v, jid)) for k, v in sorted(j.__dict__.items()))) for j in comp.jumpers)
    if with_log:
        return (top, js, _cv(comp.actions.plain() if isinstance(comp.actions, GuardedLog) else comp.actions, jid))
    return (top, js)


def cards_of(comp):
    return {bdec(j.bib): strip_card(j.attempts_by_height) for j in comp.jumpers}


# height codec: the model and the alphabet work with small integers k (only the order of heights matters to the rules); what is passed to the
# API for k is Decimal(k) by default, or a realistic value of another numeric type (observables are decoded back to k)
CODEC = None      # (name, {k: api value}, {rounded float: k})


def set_codec(name):
    global CODEC
    if name is None:
        CODEC = None
        return
    base = Decimal('2.27')
    ks = range(-30, 80)
    if name == 'float-cm':          # 1 cm steps as binary floats: 2.29, 2.30 (=2.29999...), 2.31, ...
        enc = {k: float(base + Decimal(k) / 100) for k in ks}
    elif name == 'decimal-cm':      # 1 cm steps as two-place Decimals
        enc = {k: base + Decimal(k) / 100 for k in ks}
    elif name == 'float-mm':        # 5 mm steps as binary floats: bars less than a centimetre apart (2.12, 2.125 - exactly representable, so any rounding
        # to centimetres goes half-even - 2.13, 2.135 ...); the first bar of the alphabet (k=2) is 2.12
        enc = {k: float(Decimal('2.110') + Decimal(k) * 5 / 1000) for k in ks}
    elif name == 'decimal-mm':      # 5 mm steps as three-place Decimals (pole vault bars in imperial conversions)
        enc = {k: Decimal('2.270') + Decimal(k) * 5 / 1000 for k in ks}
    elif name == 'decimal-10m':     # 1 cm steps crossing 10 metres: 9.99, 10.00, 10.01 (pole vault in feet; label width and text order change)
        enc = {k: Decimal('9.97') + Decimal(k) / 100 for k in ks}
    elif name == 'decimal-1m':      # 1 cm steps crossing 1 metre: 0.99, 1.00, 1.01
        enc = {k: Decimal('0.97') + Decimal(k) / 100 for k in ks}
    elif name == 'int':             # whole numbers as ints (bars counted in centimetres)
        enc = {k: 200 + 5 * k for k in ks}
    else:
        raise HarnessError('unknown height codec %r' % name)
    CODEC = (name, enc, {round(float(v), 6): k for k, v in enc.items()})


def enc(k):
    return Decimal(k) if CODEC is None else CODEC[1][int(k)]


# bib codec: the alphabet names the athletes 'A'..'G'; what is passed to the API can be another type (observables are decoded back)
NOBIB = False       # alphabet also registers athletes without a bib
BIBCODEC = None     # (name, {name: api value}, {api value or its str(): name})
_INT_BIBS = {'A': 81, 'B': 53, 'C': 7, 'D': 2197, 'E': 2878, 'F': 10, 'G': 9}


ORDER_TEXT = False  # jumping order passed as text ('1', '2' ... as it arrives from a start list file)


def oenc(o):
    return str(o) if ORDER_TEXT else o


def set_bibs(name):
    global BIBCODEC, NOBIB, ORDER_TEXT
    NOBIB = False
    ORDER_TEXT = False
    if name is None:
        BIBCODEC = None
    elif name == 'order-text':
        BIBCODEC = None
        ORDER_TEXT = True
    elif name == 'default':
        BIBCODEC = None
        NOBIB = True
    elif name == 'int':
        d = {}
        for k, v in _INT_BIBS.items():
            d[v] = k
            d[str(v)] = k
        BIBCODEC = (name, dict(_INT_BIBS), d)
    elif name == 'blank':           # bibs that are falsy: the empty string, None, the number 0
        enc_ = {'A': '', 'B': ' ', 'C': '00', 'D': '  '}          # one type, or the card export cannot sort its rows
        d = {'': 'A', ' ': 'B', '00': 'C', '  ': 'D'}
        BIBCODEC = (name, enc_, d)
    elif name == 'zero-padded':     # numeric bibs written with leading zeros, two of them equal as numbers
        enc_ = {'A': '053', 'B': '007', 'C': '7', 'D': '0081'}
        BIBCODEC = (name, enc_, {v: k for k, v in enc_.items()})
    elif name == 'none':            # a single athlete whose bib is None
        BIBCODEC = (name, {'A': None}, {None: 'A', 'None': 'A'})
    else:
        raise HarnessError('unknown bib codec %r' % name)


def benc(b):
    return b if BIBCODEC is None else BIBCODEC[1].get(b, b)


def bdec(x):
    if BIBCODEC is None:
        return x
    try:
        return BIBCODEC[2].get(x, x)
    except TypeError:
        return x


def hnum(h):
    if CODEC is not None and not (isinstance(h, int) and abs(h) < 100):     # small ints are the model's own k
        k = CODEC[2].get(round(float(h), 6))
        if k is not None:
            return k
    h = Decimal(h)
    return int(h) if h == h.to_integral_value() else float(h)


def observable(comp, with_trials=False):
    """What a user can see: state, heights, cards (modulo trailing blanks), bests, places, remaining/eliminated."""
    o = dict(state=comp.state,
             heights=[hnum(h) for h in comp.heights],
             bar=hnum(comp.bar_height),
             cards={bdec(j.bib): strip_card(j.attempts_by_height) for j in comp.jumpers},
             best={bdec(j.bib): hnum(j.highest_cleared) for j in comp.jumpers},
             place={bdec(j.bib): j.place for j in comp.jumpers},
             remaining=sorted(bdec(j.bib) for j in comp.remaining),
             eliminated=sorted(bdec(j.bib) for j in comp.eliminated),
             finished=comp.is_finished, running=comp.is_running)
    if with_trials:
        o['trials'] = [(bdec(b), hnum(h) if h is not None else None, r) for (b, h, r) in comp.trials]
        o['trial_objs'] = [(bdec(t.bib), hnum(t.height) if t.height is not None else None, t.result) for t in comp.trial_objs]
    return o


def card_key(comp):
    return (tuple(hnum(h) for h in comp.heights), tuple((bdec(j.bib), tuple(strip_card(j.attempts_by_height))) for j in comp.jumpers))


# ------------------------------------------------------------------------------------------------
# alphabet

class Bounds(object):
    def __init__(self, athletes, regular, jumpoff, fringe=1):
        self.athletes, self.regular, self.jumpoff, self.fringe = athletes, regular, jumpoff, fringe

    def __repr__(self):
        return '(%d athletes, %d regular + %d jump-off heights, fringe %d)' % (self.athletes, self.regular, self.jumpoff, self.fringe)

    def tup(self):
        return (self.athletes, self.regular, self.jumpoff, self.fringe)


def alphabet(model, bounds):
    """Every call tried in this state, simplest first.  Heights are small ints; a bar move that would
    exceed the height bounds is not part of the bounded space."""
    A = []
    n = len(model.order)
    if n < bounds.athletes:
        A.append(('add', BIBS[n]))
    if n:
        A.append(('add', model.order[0]))
    if NOBIB:
        # registration without a bib (default bib '0') and with the explicit bib '0', new or duplicate
        if '0' in model.order or n < bounds.athletes:
            A.append(('addnb', '0'))
            A.append(('add', '0'))
    nh = len(model.heights)
    if not model.heights:
        cand = [FIRST_HEIGHT, 0, -1]
    else:
        last = model.heights[-1]
        cand = [last + 1, last, last - 1]
    in_jo = model.phase == 'jumpoff'
    njo = nh - model.jo_from if model.jo_from is not None else 0
    for h in cand:
        if model.heights and h < MIN_HEIGHT:
            continue
        if in_jo:
            if njo >= bounds.jumpoff:
                continue
        elif model.jo_from is None:
            if nh >= bounds.regular and h > (model.heights[-1] if model.heights else 0):
                continue
        A.append(('bar', h))
    for b in model.order:
        for k in 'ox-r':
            A.append((k, b))
    return A


# ------------------------------------------------------------------------------------------------
# one state expanded: universal checks U1-U5 + successors

def fmt_hist(hist):
    return [list(c) for c in hist]


def rebuild(hist):
    """Fresh real object with the history replayed through the public API (used for replays and for
    confirming a violation from a clean state)."""
    comp = new_comp()
    for call in hist:
        apply_call(comp, call)
    return comp


def rebuild_model(hist):
    comp = new_comp()
    m = Model()
    for call in hist:
        if apply_call(comp, call) is None:
            m.step(call, comp.state)
    return comp, m


def universal_accept_ok(model, call):
    """U4 'accepted => allowed' on the cards alone, phase-independent part (valid in the fringe too).
    Returns an explanation string if the acceptance is impossible under any reading, else None."""
    kind, arg = call
    if kind in ('add', 'addnb'):
        if model.heights:
            return 'athlete added after the first bar height'
        if arg in model.cards:
            return 'duplicate bib accepted'
        return None
    if kind == 'bar':
        if model.phase in hjmodel.TERMINAL:
            return 'bar moved in a %s competition' % model.phase
        if model.phase != 'jumpoff' and model.heights and arg <= model.heights[-1]:
            return 'bar did not rise outside a jump-off'
        return None
    c = model.cards.get(arg)
    if c is None:
        return None
    if not model.heights:
        return 'trial accepted before any bar height'
    if model.phase in ('scheduled',) + hjmodel.TERMINAL:
        return 'trial accepted in a %s competition' % model.phase
    if hjmodel.has_retired(c):
        return 'trial accepted after retiring'
    cur = hjmodel.cell(c, len(model.heights) - 1)
    if 'o' in cur or '-' in cur:
        return 'trial accepted after clearing/passing the current height'
    if len(cur) >= 3:
        return 'fourth attempt at a height'
    if model.jo_from is None and hjmodel.consecutive_failures(c) >= 3:
        return 'trial accepted after three consecutive failures'
    if model.jo_from is not None and model.phase == 'jumpoff' and len(cur) >= 1 and len(model.heights) > model.jo_from:
        return 'second attempt at a jump-off height'
    return None


def expand(pick, model, bounds, hist_fn=None):
    """Try every alphabet call on clones of the state.  Returns (successors, violations, stats).
    successors: list of (call, pickled_new, model_new)."""
    RuleViolation = RV()
    comp0 = pickle.loads(pick)
    before_full = None
    repick = pickle.dumps(comp0, 4)        # canonical re-dump: equal bytes <=> nothing at all changed
    loglen = len(comp0.actions.plain())
    succ, viol = [], []
    st = dict(calls=0, accepted=0, refused=0, lockstep=0, fringe_calls=0)
    core = model.irregular == 0
    accepted_mask = []
    spare = None
    for call in alphabet(model, bounds):
        st['calls'] += 1
        comp = spare if spare is not None else pickle.loads(pick)
        spare = None
        err = apply_call(comp, call)
        allowed = model.allowed(call)
        if err is not None:
            accepted_mask.append(0)
            st['refused'] += 1
            if not isinstance(err, RuleViolation):
                viol.append(('U1:refusal-is-%s' % type(err).__name__, call,
                             'call raised %s(%s) instead of RuleViolation' % (type(err).__name__, err)))
            if pickle.dumps(comp, 4) == repick:
                after = before_full
                spare = comp                  # provably untouched: reuse the clone for the next call
            else:
                if before_full is None:
                    before_full = internal(comp0, with_log=True)
                after = internal(comp, with_log=True)
            if after != before_full:
                diff = _first_diff(before_full, after)
                viol.append(('U2:refused-call-changed-state:%s' % diff[0], call,
                             'refused call (%s) changed %s: %r -> %r' % (err, diff[0], diff[1], diff[2])))
            if len(comp.actions.plain()) != loglen:
                viol.append(('R1:refused-call-left-a-log-entry:%s' % _callclass(call, model), call,
                             'refused call (%s) is in the action log (%r): replaying the log does not rebuild this competition' % (err, comp.actions.plain()[loglen:])))
            if core and allowed is True:
                viol.append(('U5:allowed-call-refused:%s' % _callclass(call, model), call,
                             'the rules allow %s here but it was refused: %s' % (call, err)))
            continue
        # accepted
        accepted_mask.append(1)
        st['accepted'] += 1
        why = universal_accept_ok(model, call)
        if why:
            viol.append(('U4:forbidden-call-accepted:%s' % why, call, why))
            continue                           # the rules do not say what follows a forbidden trial: reported, not explored further
        elif core and allowed is False:
            viol.append(('U5:forbidden-call-accepted:%s' % _callclass(call, model), call,
                         'the rules forbid %s here (phase %s) but it was accepted' % (call, model.phase)))
            continue
        if RANK.get(comp.state, -1) < RANK.get(comp0.state, -1) or \
                (comp0.state in ('jumpoff', 'won') and comp.state in ('jumpoff', 'won') and comp.state != comp0.state):
            viol.append(('U3:state-went-backwards:%s->%s' % (comp0.state, comp.state), call, 'state %s -> %s' % (comp0.state, comp.state)))
        if comp0.state in hjmodel.TERMINAL:
            viol.append(('U3:accepted-in-%s' % comp0.state, call, 'a call was accepted in a %s competition' % comp0.state))
        log = comp.actions.plain()
        if len(log) != loglen + 1 or log[-1] != log_entry(call):
            viol.append(('U5:log-not-extended-by-exactly-this-call', call, 'log tail %r after accepted %s' % (log[loglen:], call)))
        m2 = model.clone()
        m2.step(call, comp.state)
        if m2.irregular == 0:
            st['lockstep'] += 1
            if comp.state != m2.phase:
                viol.append(('U5:phase-differs:%s-vs-model-%s' % (comp.state, m2.phase), call,
                             'implementation state %s, rules give %s' % (comp.state, m2.phase)))
            ic = cards_of(comp)
            mc = {b: strip_card(m2.cards[b]) for b in m2.order}
            if ic != mc:
                viol.append(('U5:card-differs', call, 'cards %r, rules give %r' % (ic, mc)))
        else:
            st['fringe_calls'] += 1
            if m2.irregular > bounds.fringe:
                continue                       # deviation bound reached: not explored further
            # in the fringe the model only tracks cards/heights; follow the implementation's phase
            m2.phase = comp.state
            if comp.state == 'jumpoff':
                m2.jo_alive = tuple(bdec(j.bib) for j in comp.remaining)
        succ.append((call, pickle.dumps(comp, 4), m2))
    # read-only queries: where one leaves the object changed, the changed object is a state of its own (explored with all checks,
    # the rules being unaffected by a query), at most QUERY_STEPS such steps along one history
    if getattr(model, 'qsteps', 0) < QUERY_STEPS:
        comp = spare if spare is not None else pickle.loads(pick)
        for q in QUERIES:
            apply_call(comp, ('q', q))
        st['queries'] = st.get('queries', 0) + len(QUERIES)
        if pickle.dumps(comp, 4) != repick:        # some query changed the object: find out which, one by one
            for q in QUERIES:
                comp = pickle.loads(pick)
                apply_call(comp, ('q', q))
                d = pickle.dumps(comp, 4)
                if d == repick:
                    continue
                st['impure_queries'] = st.get('impure_queries', 0) + 1
                m2 = model.clone()
                m2.step(('q', q))
                succ.append((('q', q), d, m2))
    if GuardedLog.reads:
        raise HarnessError('a transition read the action log (%d reads): the dedup abstraction is unsound for this tree' % GuardedLog.reads)
    return succ, viol, st, tuple(accepted_mask)


def _callclass(call, model):
    k = call[0]
    return '%s-in-%s' % ({'o': 'clear', 'x': 'fail', '-': 'pass', 'r': 'retire'}.get(k, k), model.phase)


def _first_diff(a, b):
    """locate the first differing attribute between two internal snapshots"""
    (ta, ja, la), (tb, jb, lb) = a, b
    for (k, v), (k2, v2) in zip(ta, tb):
        if (k, v) != (k2, v2):
            return (k, v, v2)
    for (bib, attrs), (bib2, attrs2) in zip(ja, jb):
        for (k, v), (k2, v2) in zip(attrs, attrs2):
            if (k, v) != (k2, v2):
                return ('jumper.%s' % k, v, v2)
        if len(attrs) != len(attrs2):
            return ('jumper.attributes', [k for k, _ in attrs], [k for k, _ in attrs2])
    if la != lb:
        return ('actions', la[-2:], lb[-2:])
    return ('?', None, None)


# ------------------------------------------------------------------------------------------------
# per-state monitors (C03 places at terminal states, C08 replay/round trip)

def monitor_c03(comp, model):
    """places at a terminal state vs places recomputed from the cards alone"""
    out = []
    if comp.state not in ('won', 'finished', 'drawn') or model.irregular:
        return out
    obs = observable(comp)
    req = hjmodel.expected_places(model, comp.state)
    for b in model.order:
        if obs['place'][b] not in req[b]:
            out.append(('C03:place-differs-from-countback:%s' % comp.state, None,
                        'athlete %s has place %r, cards give %s; cards=%r heights=%r' % (
                            b, obs['place'][b], sorted(req[b], key=str), obs['cards'], obs['heights'])))
            break
    for b in model.order:
        best = hjmodel.best_of(model.cards[b], model.heights)
        if obs['best'][b] != (hnum(best) if best is not None else 0):
            out.append(('C03:best-is-not-greatest-height-cleared', None,
                        'athlete %s best %r, greatest height cleared on the card %r' % (b, obs['best'][b], best)))
            break
    if comp.state in ('won', 'finished'):
        firsts = [b for b in model.order if obs['place'][b] == 1]
        if len(firsts) != 1 and any(hjmodel.best_of(model.cards[b], model.heights) is not None for b in model.order):
            out.append(('C03:tie-for-first-left-standing:%s' % comp.state, None, 'places %r in a %s competition' % (obs['place'], comp.state)))
    # standard competition ranking shape
    pl = sorted(p for p in obs['place'].values() if p != '')
    for i, p in enumerate(pl):
        if p != i + 1 and not (i and p == pl[i - 1]):
            out.append(('C03:places-not-a-competition-ranking', None, 'places %r' % (obs['place'],)))
            break
    return out


def monitor_c08(comp, model):
    """R1 log replay and R2 card round trip on one state"""
    out = []
    H = HJ()
    obs = observable(comp, with_trials=True)
    try:
        rep = comp.from_actions()
        o2 = observable(rep, with_trials=True)
        if o2 != obs:
            k = [k for k in obs if obs[k] != o2[k]]
            out.append(('R1:log-replay-differs:%s' % k[0], None, 'replayed log differs in %s: %r vs %r' % (k[0], obs[k[0]], o2[k[0]])))
    except Exception as e:
        out.append(('R1:log-replay-raises:%s' % type(e).__name__, None, 'from_actions raised %r' % e))
    if model.irregular == 0 or R2_IN_FRINGE:
        try:
            mx = comp.to_matrix()
            rt = H.from_matrix([list(r) for r in mx])
            o3 = observable(rt)
            nodash = lambda cards: {b: strip_card([c.replace('-', '') for c in cs]) for b, cs in cards.items()}
            for k in ('state', 'heights', 'best', 'place'):
                if o3[k] != obs[k]:
                    out.append(('R2:card-round-trip-differs:%s' % k, None,
                                'export/import differs in %s: %r vs %r (cards %r)' % (k, obs[k], o3[k], obs['cards'])))
                    break
            else:
                if nodash(o3['cards']) != nodash(obs['cards']):
                    out.append(('R2:card-round-trip-differs:cards', None, '%r vs %r' % (obs['cards'], o3['cards'])))
        except Exception as e:
            out.append(('R2:card-round-trip-raises:%s' % type(e).__name__, None,
                        'from_matrix(to_matrix()) raised %r (cards %r)' % (e, obs['cards'])))
        # the card exported with extra columns (personal details and a 'best height' column taken from the jumper), on decided competitions
        if comp.state in hjmodel.TERMINAL + ('won',) and comp.jumpers:
            keys = ['bib', 'first_name', 'team', 'highest_cleared']
            try:
                mx = comp.to_matrix(list(keys))
                o4 = observable(H.from_matrix([list(r) for r in mx]))
                for k in ('state', 'heights', 'best', 'place'):
                    if o4[k] != obs[k]:
                        out.append(('R2:card-round-trip-differs:%s:with-extra-columns' % k, None,
                                    'export with columns %r / import differs in %s: %r vs %r (cards %r)' % (keys, k, obs[k], o4[k], obs['cards'])))
                        break
            except Exception as e:
                out.append(('R2:card-round-trip-raises:%s:with-extra-columns' % type(e).__name__, None,
                            'from_matrix(to_matrix(%r)) raised %r (cards %r)' % (keys, e, obs['cards'])))
    return out


# ------------------------------------------------------------------------------------------------
# BFS driver

_G = {}      # frontier / seen-set / bounds, inherited by the forked workers of one BFS level


def _work(chunk):
    start, step = chunk
    bounds = Bounds(*_G['bounds'])
    want = _G['want']
    seen = _G['seen']
    items = _G['frontier'][start::step]
    res = []
    local = set()
    for idx, pick, model in items:
        succ, viol, st, mask = expand(pick, model, bounds)
        comp = pickle.loads(pick)
        mon = []
        if 'C03' in want:
            mon += monitor_c03(comp, model)
        if 'C08' in want:
            mon += monitor_c08(comp, model)
        out = []
        for call, p2, m2 in succ:
            c2 = pickle.loads(p2)
            key = digest((internal(c2), m2.canon()))
            if key in seen or key in local:
                out.append((call, key, None, None))      # known state: only the transition is reported
            else:
                local.add(key)
                out.append((call, key, p2, m2))
        core = model.irregular == 0
        ck = digest(card_key(comp)) if core else None
        ok = digest(sorted(observable(comp).items())) if core else None
        res.append((idx, out, viol, mon, st, mask, ck, ok, comp.state))
    return res


class Explorer(object):
    def __init__(self, bounds, want=('C02', 'C03', 'C08'), max_states=None):
        self.bounds = bounds
        self.want = tuple(want)
        self.max_states = max_states
        self.parent = []        # idx -> (parent idx, call)
        self.seen = {}
        self.viol = []          # (sig, history, msg)
        self.stats = dict(states=0, transitions=0, calls=0, accepted=0, refused=0, lockstep=0, fringe_calls=0,
                          core_states=0, terminal_states=0, card_groups=0, depth=0, monitors=0)
        self.states_by_phase = {}
        self.groups = {}        # card digest -> (obs digest, mask, idx)
        self.capped = False
        self.samples = []

    def history(self, idx):
        h = []
        while idx:
            p, call = self.parent[idx]
            h.append(call)
            idx = p
        return list(reversed(h))

    def add_viol(self, sig, idx, call, msg):
        h = self.history(idx)
        if call is not None:
            h = h + [call]
        n = sum(1 for v in self.viol if v[0] == sig)
        self.stats['viol_' + sig] = self.stats.get('viol_' + sig, 0) + 1
        if n < 5:
            self.viol.append((sig, h, msg))

    def run(self):
        comp = new_comp()
        m = Model()
        p0 = pickle.dumps(comp, 4)
        self.seen[digest((internal(comp), m.canon()))] = 0
        self.parent.append((0, None))
        frontier = [(0, p0, m)]
        depth = 0
        bt = self.bounds.tup()
        while frontier:
            n = len(frontier)
            nchunks = min(max(1, n // 8), common.NPROC * 4)
            _G.update(bounds=bt, want=self.want, seen=self.seen, frontier=frontier)
            results = common.pmap(_work, [(i, nchunks) for i in range(nchunks)])
            flat = []
            for r in results:
                flat.extend(r)
            flat.sort(key=lambda t: t[0])      # deterministic order = frontier order
            nxt = []
            for idx, out, viol, mon, st, mask, ck, ok, state in flat:
                self.stats['states'] += 1
                self.states_by_phase[state] = self.states_by_phase.get(state, 0) + 1
                for k, v in st.items():
                    self.stats[k] = self.stats.get(k, 0) + v
                for sig, call, msg in viol:
                    self.add_viol(sig, idx, call, msg)
                for sig, call, msg in mon:
                    self.add_viol(sig, idx, None, msg)
                self.stats['monitors'] += 1
                if ck is not None:
                    self.stats['core_states'] += 1
                    if state in ('won', 'finished', 'drawn'):
                        self.stats['terminal_states'] += 1
                    g = self.groups.get(ck)
                    if g is None:
                        self.groups[ck] = (ok, mask, idx)
                    elif 'C08' in self.want:
                        if g[0] != ok:
                            self.add_viol('R3:same-card-different-observable', idx, None,
                                          'same result card reached by two jumping orders with different observables; other history: %r' % (self.history(g[2]),))
                        elif g[1] != mask:
                            self.add_viol('R3:same-card-different-accepted-calls', idx, None,
                                          'same result card, different sets of accepted calls; other history: %r' % (self.history(g[2]),))
                for call, key, p2, m2 in out:
                    self.stats['transitions'] += 1
                    if key in self.seen or p2 is None:
                        continue
                    if self.max_states and len(self.parent) >= self.max_states:
                        self.capped = True
                        continue
                    self.seen[key] = len(self.parent)
                    nxt.append((len(self.parent), p2, m2))
                    self.parent.append((idx, call))
            if len(self.samples) < 3 and nxt:
                self.samples.append(fmt_hist(self.history(nxt[-1][0])))
            frontier = nxt
            depth += 1
        self.stats['depth'] = depth
        self.stats['card_groups'] = len(self.groups)
        return self


# ------------------------------------------------------------------------------------------------
# round-structured deep enumeration (C03): every result card over the legal attempt strings per height,
# trials fed in round-robin order, followed by every rule-conforming jump-off continuation.

def round_strings(carried):
    """legal attempt strings at one regular height for an athlete carrying `carried` consecutive failures"""
    k = 3 - carried
    S = []
    for i in range(k):
        S.append('x' * i)              # stops after i failures without clearing or passing (bar moves on)
        for t in 'o-r':
            S.append('x' * i + t)
    S.append('x' * k)
    return S


def _feed(comp, model, plan, viol, hist):
    """feed {bib: string} round-robin through the real object and the model; False if something was refused"""
    for a in range(3):
        for b in model.order:
            s = plan.get(b, '')
            if len(s) > a:
                call = (s[a], b)
                allowed = model.allowed(call)
                err = apply_call(comp, call)
                hist.append(call)
                if err is not None:
                    if allowed:
                        viol.append(('deep:legal-trial-refused:%s' % _callclass(call, model), list(hist), 'refused: %s' % err))
                    return False
                model.step(call, comp.state)
                if comp.state != model.phase:
                    viol.append(('deep:phase-differs:%s-vs-model-%s' % (comp.state, model.phase), list(hist),
                                 'implementation state %s, rules give %s' % (comp.state, model.phase)))
                    return False
    return True


def _product(options):
    """all dicts {key: choice} over a list of (key, choices)"""
    if not options:
        yield {}
        return
    (k, ch), rest = options[0], options[1:]
    for c in ch:
        for d in _product(rest):
            d = dict(d)
            d[k] = c
            yield d


class Deep(object):
    def __init__(self, athletes, regular, jumpoff):
        self.n, self.R, self.J = athletes, regular, jumpoff
        self.stats = dict(nodes=0, leaves=0, terminal_checked=0, jumpoffs=0, calls=0)
        self.viol = []
        self.outcomes = set()
        self.samples = []

    def check(self, comp, model, hist):
        if comp.state in ('won', 'finished', 'drawn'):
            self.stats['terminal_checked'] += 1
            for sig, _, msg in monitor_c03(comp, model):
                if sum(1 for v in self.viol if v[0] == sig) < 5:
                    self.viol.append((sig, list(hist), msg))
                self.stats['viol'] = self.stats.get('viol', 0) + 1
            self.outcomes.add((comp.state, tuple(sorted((b, str(j.place)) for b, j in ((bdec(k_), v_) for k_, v_ in comp.jumpers_by_bib.items())))))

    def start(self):
        comp, model = new_comp(), Model()
        hist = []
        for i in range(self.n):
            call = ('add', BIBS[i])
            apply_call(comp, call); model.step(call); hist.append(call)
        return comp, model, hist

    def first_round_plans(self):
        comp, model, hist = self.start()
        return list(_product([(b, round_strings(0)) for b in model.order]))

    def run_from(self, plan):
        """explore everything below one first-round plan"""
        comp, model, hist = self.start()
        call = ('bar', FIRST_HEIGHT)
        apply_call(comp, call); model.step(call); hist.append(call)
        if _feed(comp, model, plan, self.viol, hist):
            self.node(comp, model, hist)
        return self

    def node(self, comp, model, hist):
        self.stats['nodes'] += 1
        self.check(comp, model, hist)
        if getattr(self, 'probe', False):
            last = model.heights[-1]
            new = [b for b in BIBS if b not in model.order][0]
            A = [('add', new), ('add', model.order[0]), ('bar', last + 1), ('bar', last), ('bar', last - 1)]
            A += [(k, b) for b in model.order for k in 'ox-r']
            for k in ('probes', 'refused', 'accepted', 'lockstep'):
                self.stats.setdefault(k, 0)
            probe_all(comp, model, hist, A, self.viol, self.stats, apply_call, monitors=False, cap=5)
        st = comp.state
        if st in ('finished', 'drawn'):
            self.stats['leaves'] += 1
            return
        nh = len(model.heights)
        pick = pickle.dumps(comp, 4)
        if st == 'jumpoff':
            njo = nh - model.jo_from
            if njo == 0:
                self.stats['jumpoffs'] += 1
            if njo >= self.J:
                self.stats['leaves'] += 1
                return
            last = model.heights[-1]
            for h in [last + dd for dd in getattr(self, 'jo_deltas', (1, 0, -1))]:
                if h < MIN_HEIGHT:
                    continue
                for plan in _product([(b, 'oxr') for b in model.jo_alive]):
                    c2, m2, h2 = pickle.loads(pick), model.clone(), list(hist)
                    call = ('bar', h)
                    err = apply_call(c2, call); h2.append(call)
                    if err is not None:
                        self.viol.append(('deep:jump-off-bar-refused', h2, str(err)))
                        continue
                    m2.step(call)
                    if _feed(c2, m2, plan, self.viol, h2):
                        self.node(c2, m2, h2)
            return
        # started / won
        if nh >= self.R:
            self.stats['leaves'] += 1
            return
        alive = [b for b in model.order if not model.out_regular(b)]
        opts = [(b, round_strings(hjmodel.consecutive_failures(model.cards[b]))) for b in alive]
        for plan in _product(opts):
            c2, m2, h2 = pickle.loads(pick), model.clone(), list(hist)
            call = ('bar', model.heights[-1] + 1)
            err = apply_call(c2, call); h2.append(call)
            if err is not None:
                self.viol.append(('deep:rising-bar-refused', h2, str(err)))
                continue
            m2.step(call)
            if _feed(c2, m2, plan, self.viol, h2):
                self.node(c2, m2, h2)


def _deep_work(chunk):
    (n, R, J), plans = chunk
    d = Deep(n, R, J)
    for p in plans:
        d.run_from(p)
    if GuardedLog.reads:
        raise HarnessError('a transition read the action log')
    return dict(stats=d.stats, viol=d.viol[:20], outcomes=d.outcomes, sample=None)


def deep_enumerate(n, R, J):
    d = Deep(n, R, J)
    plans = d.first_round_plans()
    nchunks = min(len(plans), common.NPROC * 8)
    res = common.pmap(_deep_work, [((n, R, J), plans[i::nchunks]) for i in range(nchunks)])
    tot = dict(nodes=0, leaves=0, terminal_checked=0, jumpoffs=0, calls=0, viol=0)
    viol, outcomes = [], set()
    for r in res:
        for k, v in r['stats'].items():
            tot[k] = tot.get(k, 0) + v
        viol.extend(r['viol'])
        outcomes |= r['outcomes']
    tot['first_round_plans'] = len(plans)
    tot['distinct_outcomes'] = len(outcomes)
    return tot, viol


# ------------------------------------------------------------------------------------------------
# tie-focused enumeration: n-1 (or n) athletes share one regular card, the last one takes every card; then
# every jump-off continuation.  A much smaller space than Deep that still reaches every kind of jump-off.

def single_cards(R):
    """every legal sequence of attempt strings for one athlete over R regular heights"""
    out = []

    def rec(prefix, carried, alive):
        if len(prefix) == R:
            out.append(tuple(prefix))
            return
        if not alive:
            out.append(tuple(prefix + [''] * (R - len(prefix))))
            return
        for s in round_strings(carried):
            c = carried
            for ch in s:
                c = 0 if ch == 'o' else c + 1 if ch == 'x' else c
            rec(prefix + [s], c, not (s.endswith('r') or c >= 3))
    rec([], 0, True)
    return out


def _tied_work(chunk):
    (n, R, J), pairs = chunk
    d = Deep(n, R, J)
    for shared, other in pairs:
        comp, model, hist = d.start()
        ok = True
        for r in range(R):
            call = ('bar', FIRST_HEIGHT + r)
            if comp.state in ('finished', 'drawn'):
                break
            if apply_call(comp, call) is not None:
                ok = False
                break
            model.step(call); hist.append(call)
            plan = {b: (shared[r] if i < n - 1 else other[r]) for i, b in enumerate(model.order)}
            plan = {b: s for b, s in plan.items() if s}
            if not _feed(comp, model, plan, d.viol, hist):
                ok = False
                break
        if ok:
            d.node(comp, model, hist)
    if GuardedLog.reads:
        raise HarnessError('a transition read the action log')
    return dict(stats=d.stats, viol=d.viol[:20], outcomes=d.outcomes)


def tied_enumerate(n, R, J):
    cards = single_cards(R)
    pairs = [(a, b) for a in cards for b in cards]
    nchunks = min(len(pairs), common.NPROC * 8)
    res = common.pmap(_tied_work, [((n, R, J), pairs[i::nchunks]) for i in range(nchunks)])
    tot = dict(nodes=0, leaves=0, terminal_checked=0, jumpoffs=0)
    viol, outcomes = [], set()
    for r in res:
        for k in tot:
            tot[k] += r['stats'].get(k, 0)
        viol.extend(r['viol'])
        outcomes |= r['outcomes']
    tot['card_pairs'] = len(pairs)
    tot['single_cards'] = len(cards)
    tot['distinct_outcomes'] = len(outcomes)
    return tot, viol


# ------------------------------------------------------------------------------------------------
# long real competitions: every prefix of the legal history x every single deviating call (C02 beyond the BFS bound)

def long_history(card):
    """round-robin call list for a result card (explicit pass calls for '-' marks)"""
    from decimal import Decimal as D
    calls = [('add', b) for b, _ in card['cards']]
    for hi, h in enumerate(card['heights']):
        calls.append(('bar', D(h)))
        for a in range(3):
            for b, cs in card['cards']:
                s = cs[hi] if hi < len(cs) else ''
                if len(s) > a:
                    calls.append((s[a], b))
    return calls


def _apply_long(comp, call, order):
    kind, arg = call
    GuardedLog.armed = True
    try:
        if kind == 'add':
            comp.add_jumper(bib=arg, order=order.get(arg, len(order) + 1))
        elif kind == 'bar':
            comp.set_bar_height(arg)
        else:
            getattr(comp, LETTER[kind])(arg)
        return None
    except Exception as e:     # noqa
        return e
    finally:
        GuardedLog.armed = False


def probe_all(comp, model, hist, A, viol, st, apply, monitors=True, cap=None):
    """every call of A applied once to a clone of comp: universal checks U1-U5, lock-step phase, optionally the C03 monitor"""
    RuleViolation = RV()
    pick = pickle.dumps(comp, 4)
    repick = pickle.dumps(pickle.loads(pick), 4)
    core = model.irregular == 0

    def bad(sig, where, msg):
        if cap is None or sum(1 for v in viol if v[0] == sig) < cap:
            viol.append((sig, where, msg))
    for call in A:
        st['probes'] += 1
        c2 = pickle.loads(pick)
        err = apply(c2, call)
        allowed = model.allowed(call)
        where = hist + [call]
        if err is not None:
            st['refused'] += 1
            if not isinstance(err, RuleViolation):
                bad('U1:refusal-is-%s' % type(err).__name__, where, 'raised %r' % (err,))
            if pickle.dumps(c2, 4) != repick:
                d = _first_diff(internal(pickle.loads(pick), with_log=True), internal(c2, with_log=True))
                bad('U2:refused-call-changed-state:%s' % d[0], where, 'refused call (%s) changed %s: %r -> %r' % (err, d[0], d[1], d[2]))
            if core and allowed is True:
                bad('U5:allowed-call-refused:%s' % _callclass(call, model), where, 'refused: %s' % err)
        else:
            st['accepted'] += 1
            why = universal_accept_ok(model, call)
            if why:
                bad('U4:forbidden-call-accepted:%s' % why, where, why)
            elif core and allowed is False:
                bad('U5:forbidden-call-accepted:%s' % _callclass(call, model), where, 'accepted in phase %s' % model.phase)
            if RANK.get(c2.state, -1) < RANK.get(comp.state, -1):
                bad('U3:state-went-backwards:%s->%s' % (comp.state, c2.state), where, '')
            m2 = model.clone()
            m2.step(call, c2.state)
            if m2.irregular == 0:
                st['lockstep'] += 1
                if c2.state != m2.phase:
                    bad('U5:phase-differs:%s-vs-model-%s' % (c2.state, m2.phase), where, 'implementation %s, rules %s' % (c2.state, m2.phase))
                if monitors:
                    for sig, _, msg in monitor_c03(c2, m2):
                        bad(sig, where, msg)


def probe_long(name, card):
    """returns (stats, violations): at every prefix of the legal history every alphabet call is tried once on a clone"""
    from decimal import Decimal as D
    RuleViolation = RV()
    calls = long_history(card)
    order = {b: i + 1 for i, (b, _) in enumerate(card['cards'])}
    comp, model = new_comp(), Model()
    viol = []
    st = dict(prefixes=0, probes=0, accepted=0, refused=0, lockstep=0)
    hist = []
    for step in range(len(calls) + 1):
        st['prefixes'] += 1
        last = model.heights[-1] if model.heights else D(0)
        A = [('add', 'ZZ')] + ([('add', model.order[0])] if model.order else [])
        A += [('bar', last + D('0.01')), ('bar', last), ('bar', last - D('0.01'))]
        for b in model.order:
            for k in 'ox-r':
                A.append((k, b))
        probe_all(comp, model, hist, A, viol, st, lambda c, call: _apply_long(c, call, order))
        if step == len(calls):
            break
        call = calls[step]
        err = _apply_long(comp, call, order)
        hist.append(call)
        if err is not None:
            viol.append(('long:legal-history-refused', list(hist), 'call %r of the real competition %s was refused: %s' % (call, name, err)))
            break
        model.step(call, comp.state)
        if model.irregular == 0 and comp.state != model.phase:
            viol.append(('U5:phase-differs:%s-vs-model-%s' % (comp.state, model.phase), list(hist), 'on the legal history of %s' % name))
            break
        for sig, _, msg in monitor_c03(comp, model) + monitor_c08(comp, model):
            viol.append((sig, list(hist), msg))
    if GuardedLog.reads:
        raise HarnessError('a transition read the action log')
    st['final_state'] = comp.state
    return st, viol


# ------------------------------------------------------------------------------------------------
# long jump-offs: from canonical tie starts, every rule-conforming continuation of up to J rounds with a restricted bar menu

def _jolong_work(chunk):
    n, J, deltas, first_plan, probe = chunk
    d = Deep(n, 2, J)
    d.jo_deltas = deltas
    d.probe = probe
    comp, model, hist = d.start()
    for r, plan_str in enumerate(('o', 'xxx')):
        call = ('bar', FIRST_HEIGHT + r)
        apply_call(comp, call); model.step(call); hist.append(call)
        _feed(comp, model, {b: plan_str for b in model.order}, d.viol, hist)
    # first jump-off round fixed by the work item, the rest enumerated
    h, outcome = first_plan
    call = ('bar', h)
    apply_call(comp, call); model.step(call); hist.append(call)
    if _feed(comp, model, dict(zip(model.jo_alive, outcome)), d.viol, hist):
        d.node(comp, model, hist)
    if GuardedLog.reads:
        raise HarnessError('a transition read the action log')
    return dict(stats=d.stats, viol=d.viol[:20], outcomes=d.outcomes)


def jo_long(n, J, deltas=(0, -1, 1), probe=False):
    """all n athletes clear height 2 and fail height 3 (tie at best 2, no failures), then every jump-off of up to J rounds"""
    import itertools
    items = []
    for h in (3 + dd for dd in deltas):
        if h < MIN_HEIGHT:
            continue
        for outcome in itertools.product('oxr', repeat=n):
            items.append((n, J, tuple(deltas), (h, outcome), probe))
    res = common.pmap(_jolong_work, items)
    tot = dict(nodes=0, leaves=0, terminal_checked=0, jumpoffs=0)
    if probe:
        tot.update(probes=0, refused=0, accepted=0, lockstep=0)
    viol, outcomes = [], set()
    for r in res:
        for k in tot:
            tot[k] += r['stats'].get(k, 0)
        viol.extend(r['viol'])
        outcomes |= r['outcomes']
    tot['distinct_outcomes'] = len(outcomes)
    return tot, viol


# ------------------------------------------------------------------------------------------------
# larger fields (C03): every multiset of n result cards from a reduced card set (one card per countback signature), fed round-robin,
# closed by a height at which everybody left fails, jump-offs closed by one deciding round (first alive clears / everybody retires)

def reduced_cards(R, limit=None, per=1):
    """`per` legal single-athlete cards over R heights per (countback key, retired?, last cell) signature: the simplest and, for per=2, also the
    most complicated one (failures and passes sitting elsewhere on the card)"""
    hs = [FIRST_HEIGHT + r for r in range(R)]
    groups = {}
    for c in sorted(single_cards(R), key=lambda c: (sum(len(s) for s in c), c)):
        key = (hjmodel.countback_key(list(c), hs), hjmodel.has_retired(list(c)), c[-1][-1:] if c[-1] else '')
        groups.setdefault(key, []).append(c)
    out = []
    for key, cs in groups.items():
        out.append(cs[0])
        if per > 1 and len(cs) > 1:
            out.append(cs[-1])
    return out[:limit] if limit else out


def _placing_work(chunk):
    (n, R), combos = chunk
    d = Deep(n, R + 1, 1)
    for cards in combos:
        comp, model, hist = d.start()
        ok = True
        for r in range(R + 1):
            if comp.state in ('finished', 'drawn', 'jumpoff'):
                break
            call = ('bar', FIRST_HEIGHT + r)
            if apply_call(comp, call) is not None:
                ok = False
                break
            model.step(call); hist.append(call)
            if r < R:
                plan = {b: cards[i][r] for i, b in enumerate(model.order) if cards[i][r]}
            else:
                plan = {b: 'x' * (3 - hjmodel.consecutive_failures(model.cards[b])) for b in model.order if not model.out_regular(b)}
            # strings of athletes who are already out are dropped (their card says so too)
            plan = {b: s for b, s in plan.items() if not model.out_regular(b)}
            if not _feed(comp, model, plan, d.viol, hist):
                ok = False
                break
        if not ok:
            continue
        d.stats['nodes'] += 1
        d.check(comp, model, hist)
        if comp.state == 'jumpoff':
            d.stats['jumpoffs'] += 1
            pick = pickle.dumps(comp, 4)
            for variant in ('first-clears', 'all-retire'):
                c2, m2, h2 = pickle.loads(pick), model.clone(), list(hist)
                call = ('bar', m2.heights[-1])
                if apply_call(c2, call) is not None:
                    d.viol.append(('deep:jump-off-bar-refused', h2 + [call], 'refused'))
                    continue
                m2.step(call); h2.append(call)
                alive = list(m2.jo_alive)
                plan = {b: ('o' if i == 0 else 'x') if variant == 'first-clears' else 'r' for i, b in enumerate(alive)}
                if _feed(c2, m2, plan, d.viol, h2):
                    d.stats['nodes'] += 1
                    d.check(c2, m2, h2)
        d.stats['leaves'] += 1
    if GuardedLog.reads:
        raise HarnessError('a transition read the action log')
    return dict(stats=d.stats, viol=d.viol[:20], outcomes=d.outcomes)


def long_cards(R=9):
    """cards over many heights: p heights all taken the same way (o, xo, xxo or passed), one height cleared at the 1st, 2nd or 3rd attempt, then three
    failures - up to 14 failures before the best height, which the short enumerations cannot reach"""
    out = []
    for p in range(0, R - 1):
        for P in ('xxo', 'xo', 'o', '-'):
            if p == 0 and P != 'xxo':
                continue
            for Q in ('o', 'xo', 'xxo'):
                c = [P] * p + [Q] + ['xxx'] + [''] * (R - p - 2)
                out.append(tuple(c[:R]))
    return list(dict.fromkeys(out))


def placing_enumerate(n, R, ncards=None, per=1, cards=None, also_ran=None):
    import itertools
    cards = cards or reduced_cards(R, ncards, per)
    combos = list(itertools.combinations_with_replacement(cards, n))
    if also_ran:
        combos = [c + (a,) for c in combos for a in also_ran]
        n = n + 1
    nchunks = min(len(combos), common.NPROC * 8)
    res = common.pmap(_placing_work, [((n, R), combos[i::nchunks]) for i in range(nchunks)])
    tot = dict(nodes=0, leaves=0, terminal_checked=0, jumpoffs=0)
    viol, outcomes = [], set()
    for r in res:
        for k in tot:
            tot[k] += r['stats'].get(k, 0)
        viol.extend(r['viol'])
        outcomes |= r['outcomes']
    tot['reduced_cards'] = len(cards)
    tot['card_multisets'] = len(combos)
    tot['distinct_outcomes'] = len(outcomes)
    return tot, viol
