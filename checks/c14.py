"""C14 - WMA age grading is defined, consistent and spelling-independent on its domain.   DESIGN.md 3/C14.
Every tabulated event x gender spellings x letter case x every integer and half-integer age the tables cover (to 20 years past the
last column) x a performance grid around the open best, through the public wrappers and through grader objects (fresh and shared,
both call orders); oracle = independent lookup in the JSON tables (linear interpolation between age columns, last column beyond)."""
import json, os, math
from checks import crossapi
from vlib import common
from vlib import orderpass
from vlib.common import Report, Violation, HarnessError, Acc, pmap, merge

PID = 'C14'
GENDERS = {'m': ['m', 'M', 'male', 'Male', 'MALE'], 'f': ['f', 'F', 'female', 'Female', 'FEMALE']}
_G = {}


def setup():
    if _G:
        return _G
    athlib = common.bind_repo()
    d = os.path.join(common.REPO, 'athlib', 'wma')
    _G['athlib'] = athlib
    _G['tab'] = {y: json.load(open(os.path.join(d, 'wma-data-%d.json' % y))) for y in (2015, 2023)}
    _G['athlon'] = json.load(open(os.path.join(d, 'wma-athlons-data.json')))
    _G['codes'] = common.mod('athlib.codes')
    _G['utils'] = common.mod('athlib.utils')
    _G['AG'] = common.mod('athlib.wma.agegrader')
    return _G


def pos(x):
    return isinstance(x, (int, float)) and not isinstance(x, bool) and x > 0 and math.isfinite(x)


def oracle_factor(ages, fac, age):
    """None = the table does not cover this age for this row"""
    last = len(ages) - 1
    if age >= ages[last]:
        return fac[last] if pos(fac[last]) else None
    if age < ages[0]:
        return None
    # bracketing columns
    lo = max(i for i in range(len(ages)) if ages[i] <= age)
    if ages[lo] == age:
        return fac[lo] if pos(fac[lo]) else None
    hi = lo + 1
    if not (pos(fac[lo]) and pos(fac[hi])):
        return None
    t = (age - ages[lo]) / float(ages[hi] - ages[lo])
    return fac[lo] + t * (fac[hi] - fac[lo])


def is_field(G, ev):
    return bool(G['codes'].PAT_THROWS.match(ev) or G['codes'].PAT_JUMPS.match(ev))


def close(a, b, rel=1e-12):
    return isinstance(a, (int, float)) and not isinstance(a, bool) and math.isfinite(a) and abs(a - b) <= rel * max(abs(a), abs(b), 1e-300)


def perf_grid(best, n=41):
    return [best * (0.5 + 1.5 * i / (n - 1)) for i in range(n)]


def work(chunk):
    """both table years are visited in one process (in the order given) so that state shared between the graders shows"""
    years, g, rows = chunk
    packs = [work_year((y, g, rows)) for y in years]
    out = packs[0]
    for p in packs[1:]:
        out['n'] += p['n']; out['nontrivial'] += p['nontrivial']; out['nviol'] += p['nviol']
        out['viol'] += p['viol']; out['samples'] += p['samples']
        for k, v in p['extra'].items():
            out['extra'][k] = out['extra'].get(k, 0) + v
    return out


def work_year(chunk):
    year, g, rows = chunk
    G = setup()
    a = G['athlib']
    data = G['tab'][year]
    ages = data['ages']
    acc = Acc()
    chk = G['utils'].check_event_code
    AGc = G['AG'].AgeGrader
    for ri in rows:
        row = data[g][ri]
        ev, km, best, fac = row[0], row[1], row[2], row[3:]
        field = is_field(G, ev)
        cases = [ev] + ([ev.lower()] if ev.lower() != ev and chk(ev.lower()) else [])
        covered = [i for i in range(len(ages)) if pos(fac[i])]
        if not covered:
            continue
        first = ages[covered[0]]
        top = ages[-1] + 20
        age = float(first)
        fresh = AGc(year)
        while age <= top:
            A = int(age) if age == int(age) else age
            want = oracle_factor(ages, fac, A)
            if want is None:
                age += 0.5
                continue
            for evs in cases:
                for gi, gs in enumerate(GENDERS[g]):
                    full = gi == 0 and evs == ev
                    case = dict(year=year, gender=gs, event=evs, age=A)
                    acc.n += 1
                    try:
                        f = a.wma_age_factor(gs, A, evs, year=year)
                    except Exception as e:
                        acc.bad('factor-raises:%s:%s' % (type(e).__name__, 'past-last-column' if A > ages[-1] else 'at-first-covered-column' if A == first else 'in-table'),
                                case, 'wma_age_factor raised %r, table gives %r' % (e, want))
                        continue
                    if not close(f, want):
                        acc.bad('factor-differs-from-table', case, 'wma_age_factor = %r, the table gives %r' % (f, want))
                        continue
                    acc.nontrivial += 1
                    acc.n += 1
                    try:
                        b = a.wma_world_best(gs, evs, year=year)
                    except Exception as e:
                        acc.bad('best-raises:%s:%s' % (type(e).__name__, 'gender-spelling' if gs != g else 'event-case' if evs != ev else 'plain'), case, 'wma_world_best raised %r' % (e,))
                        continue
                    if b != best:
                        acc.bad('best-differs-from-table', case, 'wma_world_best = %r, table has %r' % (b, best))
                        continue
                    std = best / want
                    prevg = None
                    for p in (perf_grid(best) if full else [best, best * 1.1]):
                        acc.n += 1
                        try:
                            gr = a.wma_age_grade(gs, A, evs, p, year=year)
                        except Exception as e:
                            acc.bad('grade-raises:%s:%s' % (type(e).__name__, 'gender-spelling' if gs != g else 'event-case' if evs != ev else 'plain'), dict(case, perf=p),
                                    'wma_age_grade raised %r' % (e,))
                            break
                        wg = p / std if field else std / p
                        if not close(gr, wg, 1e-11):
                            acc.bad('grade-differs-from-formula', dict(case, perf=p), 'wma_age_grade = %r, (best/factor)%s gives %r' % (gr, '' if field else '/time', wg))
                            break
                        if full and prevg is not None:
                            better = gr > prevg if field else gr < prevg
                            if not better:
                                acc.bad('grade-not-strictly-monotone', dict(case, perf=p), 'grade %r after %r' % (gr, prevg))
                                break
                        prevg = gr
                    if full:
                        # the verbose option prints its working; the answer must be the same
                        import io as _io, contextlib as _cl
                        acc.n += 1
                        pv = best * 1.07
                        try:
                            with _cl.redirect_stdout(_io.StringIO()):
                                gv = a.wma_age_grade(gs, A, evs, pv, True, year=year)
                            g0 = a.wma_age_grade(gs, A, evs, pv, year=year)
                            if gv != g0:
                                acc.bad('verbose-option-changes-the-grade', dict(case, perf=pv), 'verbose=True gives %r, verbose=False %r' % (gv, g0))
                        except Exception as e:
                            acc.bad('grade-raises:%s:verbose' % type(e).__name__, dict(case, perf=pv), repr(e))
                    if full and want == 1:
                        acc.n += 1
                        g1 = a.wma_age_grade(gs, A, ev, best, year=year)
                        if g1 != 1.0:
                            acc.bad('open-best-at-factor-1-not-exactly-1', case, 'grade %r' % (g1,))
            # grader objects: fresh object, both call orders (scratch must not leak between calls)
            acc.n += 1
            try:
                o1 = AGc(year)
                b1 = o1.world_best(g, ev)
                f1 = o1.calculate_factor(g, A, ev)
                f2 = fresh.calculate_factor(g, A, ev)
                b2 = fresh.world_best(g, ev)
                gr = fresh.calculate_age_grade(g, A, ev, best)
                if not (close(f1, want) and close(f2, want) and b1 == best and b2 == best):
                    acc.bad('grader-object-call-order-matters', dict(year=year, gender=g, event=ev, age=A), 'factor %r/%r best %r/%r; table %r, %r' % (f1, f2, b1, b2, want, best))
            except Exception as e:
                acc.bad('grader-object-raises:%s' % type(e).__name__, dict(year=year, gender=g, event=ev, age=A), repr(e))
            age += 0.5
        # ages between the half years (the weights of the column interpolation matter only there), as floats and as Decimals
        from decimal import Decimal as _D
        for ia in range(int(first), int(ages[-1]) + 2):
            for fr in ('0.25', '0.75', '0.01', '0.99', '0.4'):
                for A in (ia + float(fr), _D(ia) + _D(fr)):
                    want = oracle_factor(ages, fac, float(A))
                    if want is None:
                        continue
                    acc.n += 1
                    case = dict(year=year, gender=g, event=ev, age=str(A), age_type=type(A).__name__)
                    try:
                        f = a.wma_age_factor(g, A, ev, year=year)
                        gr = a.wma_age_grade(g, A, ev, best * 1.1, year=year)
                    except Exception as e:
                        if isinstance(A, float):
                            acc.bad('factor-raises:%s:fractional-age' % type(e).__name__, case, 'raised %r, table gives %r' % (e, want))
                        continue            # a Decimal age may be refused; if it is answered the answer must be right
                    wg = (best * 1.1) / (best / want) if field else (best / want) / (best * 1.1)
                    if not close(float(f), want, 1e-9):
                        acc.bad('factor-differs-from-table:fractional-age', case, 'wma_age_factor = %r, linear interpolation of the table columns gives %r' % (f, want))
                    elif not close(float(gr), wg, 1e-9):
                        acc.bad('grade-differs-from-formula:fractional-age', case, 'wma_age_grade = %r, formula gives %r' % (gr, wg))
                    else:
                        acc.nontrivial += 1
        if not acc.samples:
            acc.samples.append(dict(year=year, gender=g, event=ev, age=first + 10, factor=oracle_factor(ages, fac, first + 10), best=best))
    return acc.pack()


def athlon_work(chunk):
    g, = chunk
    G = setup()
    a = G['athlib']
    data = G['athlon']
    ages = data['ages']
    acc = Acc()
    for row in data[g]:
        ev = row[0]
        field = is_field(G, ev)
        cases = [ev, ev.lower()] if ev.lower() != ev else [ev]
        for age2 in range(2 * 30, 2 * 131):
            A = age2 // 2 if age2 % 2 == 0 else age2 / 2.0
            band = min(5 * int(A // 5), ages[-1])
            want = row[ages.index(band)] if band >= 35 else None
            for evs in cases:
                for gs in GENDERS[g]:
                    acc.n += 1
                    case = dict(table='athlon', gender=gs, event=evs, age=A)
                    try:
                        f = a.wma_athlon_age_factor(gs, A, evs)
                    except Exception as e:
                        acc.bad('athlon-factor-raises:%s:%s' % (type(e).__name__, 'below-35' if A < 35 else 'past-last-band' if A >= 115 else 'in-table'), case, repr(e))
                        continue
                    if not pos(f):
                        acc.bad('athlon-factor-not-a-positive-number:%s' % ('below-35' if A < 35 else 'in-table'), case, 'wma_athlon_age_factor = %r' % (f,))
                        continue
                    if want is not None and f != want:
                        acc.bad('athlon-factor-differs-from-table', case, 'wma_athlon_age_factor = %r, band %d has %r' % (f, band, want))
                        continue
                    acc.nontrivial += 1
                    if gs == g and evs == ev:
                        # grade: defined, finite, strictly monotone in the performance; spelling independent
                        prevg = None
                        for p in (8.0, 10.0, 12.5, 60.0):
                            acc.n += 1
                            try:
                                gr = a.wma_athlon_age_grade(gs, A, evs, p)
                                gr2 = a.wma_athlon_age_grade(gs.upper(), A, evs.lower(), p)
                            except Exception as e:
                                acc.bad('athlon-grade-raises:%s:%s' % (type(e).__name__, 'below-35' if A < 35 else 'in-table'), dict(case, perf=p), repr(e))
                                break
                            if not pos(gr) or gr != gr2:
                                acc.bad('athlon-grade-not-finite-or-spelling-dependent', dict(case, perf=p), 'grade %r / %r' % (gr, gr2))
                                break
                            if prevg is not None and not (gr > prevg if field else gr < prevg):
                                acc.bad('athlon-grade-not-strictly-monotone', dict(case, perf=p), 'grade %r after %r' % (gr, prevg))
                                break
                            prevg = gr
    if not acc.samples:
        acc.samples.append(dict(table='athlon', gender=g, event='100', age=50, factor=a.wma_athlon_age_factor(g, 50, '100')))
    return acc.pack()


def run(tier):
    common.bind_repo()
    rep = Report(PID, tier, 'exploration')
    G = setup()
    chunks = []
    for g in 'mf':
        n = min(len(G['tab'][2015][g]), len(G['tab'][2023][g]))
        for j, i in enumerate(range(0, n, 3)):
            chunks.append(((2015, 2023) if j % 2 == 0 else (2023, 2015), g, list(range(i, min(n, i + 3)))))
        for y in (2015, 2023):
            if len(G['tab'][y][g]) > n:
                chunks.append(((y,), g, list(range(n, len(G['tab'][y][g])))))
    merge(rep, pmap(work, chunks), part='single-event tables 2015 and 2023')
    merge(rep, pmap(athlon_work, [('m',), ('f',)]), part='combined-events table')
    c = rep.coverage
    c['rule'] = ('every row of the 2015 and 2023 tables x gender spellings x event case x every integer and half-integer age from the first covered column to 20 past '
                 'the last x a 41-point performance grid (2 points for the spelling variants); combined-events table: every row x ages 30..130.5 x spellings; '
                 'non-trivial = factor calls equal to the independent table lookup')
    c['exhaustive'] = True
    rep.assumptions += ['an age is covered when the bracketing age columns hold positive numbers; ages past the last column are covered when that column is',
                        'lower-case event spellings are used where check_event_code accepts them',
                        'the combined-events table has no open-best column: for it only the factor is compared with the table, the grade must be finite, monotone and spelling independent']
    # the year argument in its spellings (int, text, default): whichever table a spelling selects, the three wrappers must select the same one -
    # the grade is (open best / factor) / time, or mark / (open best / factor), of the values the same spelling gives
    acc = Acc()
    a_ = G['athlib']
    for ykw in (dict(year=2015), dict(year=2023), dict(year='2015'), dict(year='2023'), dict(), dict(year=' 2015'), dict(year=2015.0)):
        for g, ev, age, perf in (('m', '100', 50, 12.0), ('f', 'HJ', 62, 1.30), ('m', 'MAR', 75.5, 12000.0), ('F', '5K', 41, 1300.0), ('m', 'SP', 57, 11.0), ('f', '200', 35, 27.0)):
            acc.n += 1
            case = dict(gender=g, event=ev, age=age, perf=perf, year=repr(ykw.get('year', 'default')))
            try:
                b = a_.wma_world_best(g, ev, **ykw)
                f = a_.wma_age_factor(g, age, ev, **ykw)
                gr = a_.wma_age_grade(g, age, ev, perf, **ykw)
            except Exception as e:
                acc.add('year_spellings_refused')
                continue
            std = b / f
            wg = perf / std if is_field(G, ev) else std / perf
            # the default year of the three wrappers differs by design (factor: 2015 spelling, grade/best: 2023); only explicit spellings are compared
            if 'year' in ykw and not close(gr, wg, 1e-11):
                acc.bad('wrappers-disagree-on-the-table-year', case, 'wma_age_grade = %r, but wma_world_best / wma_age_factor with the same year argument give %r' % (gr, wg))
            else:
                acc.nontrivial += 1
    merge(rep, [acc.pack()], part='year argument spellings: grade vs best and factor of the same spelling')
    W = 'athlib.wma_age_factor', 'athlib.wma_age_grade', 'athlib.wma_world_best', 'athlib.wma_athlon_age_factor', 'athlib.wma_athlon_age_grade'
    oc = [(W[0], ('m', 50, '100')), (W[0], ('f', 62, 'HJ')), (W[0], ('m', 75.5, 'MAR')), (W[0], ('M', 40, '5K'), dict(year=2015)), (W[0], ('m', 50, '100'), dict(year=2023)),
          (W[0], ('f', 62, 'hj'), dict(year='2023')), (W[0], ('m', 105, '200')), (W[0], ('f', 35, '60H'), dict(year=2015)), (W[0], ('m', 50, 'XX')),
          (W[1], ('m', 50, '100', 12.0)), (W[1], ('f', 45, 'LJ', 4.8)), (W[1], ('m', 60, 'HJ', 1.5), dict(year=2015)), (W[1], ('F', 70, '5K', 1500.0)),
          (W[2], ('m', '100')), (W[2], ('f', 'PV')), (W[2], ('f', 'PV'), dict(year=2015)), (W[2], ('m', 'MAR')),
          (W[3], ('M', 50, '100')), (W[3], ('F', 60, 'HJ')), (W[3], ('M', 34, '100')), (W[4], ('f', 60, 'HJ', 1.4)), (W[4], ('m', 45, '1500', 280.0))]
    orderpass.part(rep, oc, 'age-grading call-order pass')
    # calls whose arguments, written one after the other, give the same text: age a on event d+E and age 'ad' on event E ('m', 5, '1500') / ('m', 51, '500')
    # - a memo keyed on the concatenation cannot tell them apart.  All such pairs of tabulated events, every age that has a partner inside the table
    amb = []
    for y in (2015, 2023):
        evs = [r[0] for r in G['tab'][y]['m']]
        for e1 in evs:
            for e2 in evs:
                if e1 != e2 and e1.endswith(e2) and e1[:len(e1) - len(e2)].isdigit():
                    d = e1[:len(e1) - len(e2)]
                    for a in range(5, 12):
                        a2 = int(str(a) + d)
                        if a2 <= 110:
                            for g in ('m', 'f'):
                                amb.append([(W[1], (g, a, e1, 100.0), dict(year=y)), (W[1], (g, a2, e2, 100.0), dict(year=y))])
                                amb.append([(W[0], (g, a, e1), dict(year=y)), (W[0], (g, a2, e2), dict(year=y))])
    orderpass.part_groups(rep, amb, 'argument texts that run together')
    crossapi.part(rep, PID, tier)
    return rep.finish()


def replay(rec):
    G = setup()
    a = G['athlib']
    c = rec['case']
    print(rec['sig'], '-', rec['msg'])
    try:
        if c.get('table') == 'athlon':
            print('wma_athlon_age_factor ->', a.wma_athlon_age_factor(c['gender'], c['age'], c['event']))
        else:
            print('wma_age_factor ->', a.wma_age_factor(c['gender'], c['age'], c['event'], year=c['year']))
            print('wma_world_best ->', a.wma_world_best(c['gender'], c['event'], year=c['year']))
    except Exception as e:
        print('raised', repr(e))
    return 1
