"""C05 - a better performance never scores fewer points, in any scoring system.   DESIGN.md 3/C05.
Adjacent marks of the 0.01 grid are compared for every table/event/gender/age of Tyrving, QuadKids, Sportshall,
Bulgarian, Hungarian (checks/scoring_common.py) and the combined-events tables (with and without age bands);
results must be ints within the system's bounds; Tyrving hand-timed <= electronic."""
from decimal import Decimal
from checks import crossapi
from vlib import common
from vlib.common import Report, Violation, HarnessError, Acc, pmap, merge
from checks import scoring_common as sc
from checks import c01

PID = 'C05'
SYS = ['ty', 'qk', 'sh', 'bg', 'hu']


def athlon_work(chunk):
    key, lo, hi, age = chunk[:4]
    G = c01.setup()
    g, e = key
    if len(chunk) > 4:
        g, e = chunk[4]          # a letter-case spelling of the same row
    score = G['score']
    esaa = age == 'esaa'                  # the English Schools option of the boys' 800 m
    if esaa:
        age = None
    timed = c01.kind_of(G, G['rows'][key]['ev']) == 'timed'
    acc = Acc()
    prev = None
    for cs in range(lo, hi + 1):
        acc.n += 1
        v = cs / 100.0
        try:
            got = score(g, e, v, None, True) if esaa else score(g, e, v, age) if age else score(g, e, v)
        except Exception as ex:
            acc.bad('C05:athlon:raises-%s' % type(ex).__name__, dict(gender=g, event=e, mark=v, age=age), repr(ex))
            prev = None
            continue
        if type(got) is not int or got < 0:
            acc.bad('C05:athlon:result-not-a-non-negative-int', dict(gender=g, event=e, mark=v, age=age), 'returned %r' % (got,))
            continue
        if got > 0:
            acc.nontrivial += 1
        if prev is not None:
            better, worse = (prev, got) if timed else (got, prev)
            if better < worse:
                acc.bad('C05:athlon:better-mark-fewer-points', dict(gender=g, event=e, age=age, marks=[(cs - 1) / 100.0, v]),
                        'better mark scores %d, worse mark scores %d' % (better, worse))
        prev = got
    if not acc.samples:
        acc.samples.append(dict(gender=g, event=e, age=age, marks=[lo / 100.0, hi / 100.0]))
    return acc.pack()


def run(tier):
    common.bind_repo()
    rep = Report(PID, tier, 'exploration')
    jobs = []
    for s in SYS:
        jobs += sc.split_jobs(sc.SYSTEMS[s]['jobs'](tier), tier)
    jobs.sort(key=lambda j: -(j['hi'] - j['lo']) // j.get('stride', 1))
    packs = pmap(sc.sweep, jobs)
    for p in packs:
        p['viol'] = [v for v in p['viol'] if v['sig'].startswith('C05:')]
    for s in SYS:
        sub = [p for p, j in zip(packs, jobs) if j['sys'] == s]
        merge(rep, sub, part='%s sweep' % sc.SYSTEMS[s]['name'])
    # combined events: every row, no age + age bands on the rows that have a factor
    G = c01.setup()
    chunks = []
    ages = [None, 35, 72] if tier == 'quick' else [None] + c01.ALL_BANDS
    for k in sorted(G['rows']):
        hi = c01.grid_hi(G, k)
        for age in ages:
            if age is not None and c01.wma_factor(G, k[0], k[1], age) is None:
                continue
            top = hi
            if age is not None and c01.kind_of(G, G['rows'][k]['ev']) == 'timed':
                top = min(200000, int(hi / float(c01.wma_factor(G, k[0], k[1], age))) + 50)
            n = max(1, (top + 1) // (20000 if age is None else 6000))
            for a, b in common.split_range(0, top + 1, n):
                chunks.append((k, max(0, a - 1), b - 1, age))
    hi800 = c01.grid_hi(G, ('M', '800'))
    for a, b in common.split_range(0, hi800 + 1, 8):
        chunks.append((('M', '800'), max(0, a - 1), b - 1, 'esaa'))
    merge(rep, pmap(athlon_work, chunks), part='combined events (ages %r, and the ESAA option of M 800)' % (ages,))
    # letter-case spellings of the same rows on the whole grid (no age, and one band)
    chunks2 = []
    for k in sorted(G['rows']):
        if k in c01.ALIASES:
            continue
        hi = c01.grid_hi(G, k)
        for sp in ((k[0].lower(), k[1].lower()), (k[0], k[1].capitalize())):
            if sp == k:
                continue
            for age in (None, 50):
                if age is not None and c01.wma_factor(G, k[0], k[1], age) is None:
                    continue
                step = max(1, (hi + 1) // 20000)
                for a, b in common.split_range(0, hi + 1, step):
                    chunks2.append((k, max(0, a - 1), b - 1, age, sp))
    merge(rep, pmap(athlon_work, chunks2), part='combined events, letter-case spellings of gender / event')
    c = rep.coverage
    c['jobs'] = len(jobs) + len(chunks)
    c['rule'] = ('all adjacent pairs of marks on the 0.01 grid for every table/event/gender/age of each scoring system, per input form; results int and '
                 'within bounds (QuadKids 10..100, Bulgarian 0..150, others >= 0; Hungarian on the range where its parabola is non-negative); '
                 'non-trivial = evaluations with a score above the floor' + ('; quick: rows longer than 120 000 marks use stride 7 past the first 3000' if tier == 'quick' else ''))
    c['exhaustive'] = tier == 'thorough'
    rep.assumptions += ['Hungarian timed events: marks no slower than the zero point of the parabola; field/multi events from the first non-negative mark',
                        'monotonicity is compared per input form (the forms are compared with each other by C11)']
    crossapi.part(rep, PID, tier)
    return rep.finish()


def replay(rec):
    print(rec['sig'], '-', rec['msg'])
    print(rec['case'])
    return 1
