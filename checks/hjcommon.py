"""Shared driver for the three high-jump checks (C02, C03, C08): runs the hjmc explorer for a list of
bounds and turns its findings into a Report."""
import time
from vlib import common, hjmc
from vlib.common import Report, Violation, HarnessError

QUICK_BOUNDS = [(1, 3, 1, 1), (1, 4, 1, 1), (2, 2, 1, 1), (3, 1, 1, 1), (2, 2, 2, 1)]
THOROUGH_BOUNDS = [(1, 4, 3, 2), (2, 2, 2, 2), (2, 3, 1, 1), (3, 1, 2, 1)]
HUGE_BOUNDS = [(3, 2, 1, 1), (4, 1, 1, 1)]      # 2.0e6 states (~10 min) and 1.4e5 states (four athletes): C02 and C08 thorough only
# the same exploration with the bar heights passed as other numeric types (bounds, codec)
QUICK_CODECS = [((2, 1, 1, 1), 'decimal-mm'), ((2, 2, 1, 1), 'float-cm'), ((2, 2, 1, 1), 'decimal-cm'), ((1, 3, 1, 1), 'float-cm'), ((2, 2, 1, 1), 'decimal-10m'), ((2, 1, 1, 1), 'decimal-1m'),
                ((2, 1, 1, 1), 'int'), ((2, 2, 1, 1), 'bibs:int'), ((2, 1, 1, 1), 'bibs:default'), ((2, 1, 1, 1), 'bibs:blank'), ((1, 2, 1, 1), 'bibs:none'),
                ((2, 1, 1, 1), 'bibs:order-text'), ((3, 1, 1, 1), 'bibs:zero-padded'), ((2, 2, 1, 1), 'float-mm'), ((3, 1, 1, 1), 'opt:verbose'), ((2, 2, 1, 1), 'opt:verbose')]
THOROUGH_CODECS = [((2, 2, 2, 1), 'decimal-10m'), ((2, 2, 1, 1), 'decimal-1m'), ((2, 2, 1, 1), 'int'), ((2, 2, 2, 1), 'bibs:int'), ((3, 1, 1, 1), 'bibs:int'), ((2, 2, 1, 1), 'bibs:default'), ((3, 1, 1, 1), 'bibs:default'), ((2, 2, 1, 1), 'bibs:blank'), ((3, 1, 1, 1), 'bibs:blank'), ((1, 3, 1, 1), 'bibs:none'), ((2, 2, 2, 1), 'float-cm'), ((2, 2, 2, 1), 'decimal-cm'), ((2, 2, 1, 1), 'decimal-mm'), ((1, 4, 3, 2), 'float-cm'), ((3, 1, 1, 1), 'float-cm'),
                   ((2, 3, 1, 1), 'float-cm'), ((2, 2, 1, 1), 'bibs:order-text'), ((2, 2, 2, 1), 'float-mm'), ((3, 1, 1, 1), 'float-mm')]


def explore_codecs(rep, want, tier, prefixes):
    for bt, codec in (QUICK_CODECS if tier == 'quick' else THOROUGH_CODECS):
        explore(rep, want, [bt], prefixes, codec=codec)


def set_codecs(codec):
    """'bibs:<name>' selects a bib codec, anything else a height codec"""
    hjmc.set_codec(None)
    hjmc.set_bibs(None)
    hjmc.COMP_OPTS.clear()
    if codec and codec.startswith('opt:'):
        hjmc.COMP_OPTS[codec[4:]] = 1
    elif codec and codec.startswith('bibs:'):
        hjmc.set_bibs(codec[5:])
    elif codec:
        hjmc.set_codec(codec)


def explore(rep, want, bounds_list, prefixes, max_states=None, codec=None):
    """prefixes: violation signature prefixes that belong to this property"""
    tot = dict(states=0, transitions=0, calls=0, accepted=0, refused=0, lockstep=0, fringe_calls=0,
               core_states=0, terminal_states=0, card_groups=0, monitors=0, queries=0, impure_queries=0)
    phases = {}
    for bt in bounds_list:
        t0 = time.time()
        set_codecs(codec)
        try:
            ex = hjmc.Explorer(hjmc.Bounds(*bt), want=want, max_states=max_states).run()
        finally:
            set_codecs(None)
        for k in tot:
            tot[k] += ex.stats.get(k, 0)
        for k, v in ex.states_by_phase.items():
            phases[k] = phases.get(k, 0) + v
        rep.part('bfs %s%s' % (hjmc.Bounds(*bt), ' heights passed as %s' % codec if codec else ''), wall_s=round(time.time() - t0, 1), capped=ex.capped,
                 states_by_phase=ex.states_by_phase, **{k: ex.stats.get(k, 0) for k in tot}, depth=ex.stats['depth'])
        if ex.capped:
            rep.coverage.setdefault('caps_hit', []).append('state cap %s at bounds %s' % (max_states, bt))
        for sig, hist, msg in ex.viol:
            if sig.startswith(tuple(prefixes)):
                rep.add_violation(Violation(sig + (':heights-as-%s' % codec if codec else ''), dict(bounds=list(bt), history=hjmc.fmt_hist(hist), **({'codec': codec} if codec else {})), msg))
        for s in ex.samples:
            rep.sample(dict(bounds=list(bt), history=s))
    c = rep.coverage
    for k in ('states', 'transitions'):
        c[k] = c.get(k, 0) + tot[k]
    c['traces_validated_against_impl'] = c.get('traces_validated_against_impl', 0) + tot['lockstep']
    c['calls_tried'] = c.get('calls_tried', 0) + tot['calls']
    c['refused_calls_checked'] = c.get('refused_calls_checked', 0) + tot['refused']
    c['core_states'] = c.get('core_states', 0) + tot['core_states']
    c['fringe_transitions'] = c.get('fringe_transitions', 0) + tot['fringe_calls']
    c['terminal_states'] = c.get('terminal_states', 0) + tot['terminal_states']
    c['card_groups'] = c.get('card_groups', 0) + tot['card_groups']
    c['read_only_queries_applied'] = c.get('read_only_queries_applied', 0) + tot.get('queries', 0)
    c['read_only_queries_that_changed_the_object'] = c.get('read_only_queries_that_changed_the_object', 0) + tot.get('impure_queries', 0)
    c['states_by_phase'] = phases
    c['evaluations'] = c.get('evaluations', 0) + tot['calls']
    c['distinct_nontrivial'] = c.get('distinct_nontrivial', 0) + tot['states']
    # vacuity guards
    for ph in ('scheduled', 'started', 'jumpoff', 'won', 'finished', 'drawn'):
        if not phases.get(ph) and codec is None:
            raise HarnessError('vacuous exploration: competition state %r never reached' % ph)
    return tot


def probe_long_cards(rep, prefixes):
    """single deviations from long real competitions (15 athletes, 14 heights): every prefix x every alphabet call"""
    from data import hj_cards
    tot = dict(prefixes=0, probes=0, accepted=0, refused=0, lockstep=0)
    for name, card in hj_cards.CARDS.items():
        st, viol = hjmc.probe_long(name, card)
        for k in tot:
            tot[k] += st[k]
        rep.part('long competition %s (%d athletes, %d heights)' % (name, len(card['cards']), len(card['heights'])), **st)
        seen = {}
        for sig, hist, msg in viol:
            if sig.startswith(tuple(prefixes)) and seen.get(sig, 0) < 5:
                seen[sig] = seen.get(sig, 0) + 1
                rep.add_violation(Violation(sig, dict(competition=name, history=[[k, str(a)] for k, a in hist]), msg))
    c = rep.coverage
    c['long_competition_prefixes'] = tot['prefixes']
    c['long_competition_probes'] = tot['probes']
    c['evaluations'] = c.get('evaluations', 0) + tot['probes']
    c['traces_validated_against_impl'] = c.get('traces_validated_against_impl', 0) + tot['lockstep']
    return tot


def replay_history(rec, want):
    """Plain re-execution of a recorded history on the public API, printing what happens."""
    case = rec['case']
    hist = [tuple(c) for c in case['history']]
    comp, model = hjmc.new_comp(), hjmc.Model()
    RuleViolation = hjmc.RV()
    longc = 'competition' in case
    set_codecs(case.get('codec'))
    if longc:
        from decimal import Decimal
        from data import hj_cards
        order = {b: i + 1 for i, (b, _) in enumerate(hj_cards.CARDS[case['competition']]['cards'])}
        hist = [(k, Decimal(a) if k == 'bar' else a) for k, a in hist]
    for call in hist:
        err = hjmc._apply_long(comp, call, order) if longc else hjmc.apply_call(comp, call)
        print('%-14r -> %s   [state %s, rules: %s]' % (call, 'accepted' if err is None else '%s: %s' % (type(err).__name__, err),
                                                      comp.state, model.allowed(call)))
        if err is None:
            model.step(call, comp.state)
    obs = hjmc.observable(comp)
    print('final:', obs)
    print('model phase:', model.phase, 'jump-off alive:', model.jo_alive)
    print('recorded:', rec['sig'], '-', rec['msg'])
    # re-evaluate the monitors on the final state
    bad = [s for s, _, _ in hjmc.monitor_c03(comp, model) + hjmc.monitor_c08(comp, model)]
    print('monitors on final state:', bad)
    return 1


def jumping_orders(rep, tier, prefixes=('O', 'R', 'place', 'best', 'tie', 'places')):
    """C08 order-independence beyond the BFS bound (vlib/hjorder.py): all jumping orders of real result cards and of synthetic competitions (DAG over
    positions with merging by internal state), and the orders within a deviation bound of round-robin for the 15-athlete Rio final"""
    from data import hj_cards
    from vlib import hjorder
    tot = dict(nodes=0, calls=0, orders=0, comps=0)

    def fold(name, st, viol, case_extra):
        rep.part(name, **{k: v for k, v in st.items()})
        tot['nodes'] += st['nodes']
        tot['calls'] += st['calls']
        tot['orders'] += st['orders_covered']
        tot['comps'] += st['competitions']
        seen = {}
        for sig, hist, msg in viol:
            if seen.get(sig, 0) < 4:
                seen[sig] = seen.get(sig, 0) + 1
                case = dict(case_extra)
                case['history'] = [[k, str(a)] for k, a in hist] if 'competition' in case else hjmc.fmt_hist(hist)
                rep.add_violation(Violation(sig, case, msg))
    for name in ('ESAA_2015', 'WINNER_1066'):
        st, viol = hjorder.explore_card(hj_cards.CARDS[name])
        fold('all jumping orders of %s (DAG over positions, merged by internal state)' % name, st, viol, dict(competition=name))
    k = 1 if tier == 'quick' else 2
    st, viol = hjorder.deviate_card(hj_cards.RIO_2016, k)
    fold('jumping orders of RIO_2016 within %d deviation(s) of round-robin' % k, st, viol, dict(competition='RIO_2016'))
    runs = [(3, 2, 1, 12), (2, 3, 1, None)] if tier == 'quick' else [(3, 2, 2, None), (2, 3, 2, None), (4, 2, 1, 9), (3, 3, 1, 14)]
    for n, R, J, limit in runs:
        st, viol = hjorder.synthetic(n, R, J, limit=limit)
        fold('all jumping orders of synthetic competitions: %d athletes, %d heights + closing height, jump-offs of <= %d rounds%s' % (
            n, R, J, ', first %d reduced cards' % limit if limit else ''), st, viol, {})
    c = rep.coverage
    c['jumping_orders_covered'] = tot['orders']
    c['jumping_order_nodes'] = tot['nodes']
    c['evaluations'] = c.get('evaluations', 0) + tot['calls']
    c['states'] = c.get('states', 0) + tot['nodes']
    c['transitions'] = c.get('transitions', 0) + tot['calls']
    c['traces_validated_against_impl'] = c.get('traces_validated_against_impl', 0) + tot['calls']
    rep.assumptions.append('jumping orders: states that agree on the position (trials taken per athlete) and on the complete internal snapshot are merged; the 15-athlete '
                           'final is explored within a deviation bound instead (the ranking list orders tied athletes by arrival, so merging does not help there)')
    return tot
