"""Cross-API call-order pass (C01 C05 C09 C10 C11 C12 C14 C15 C17).   DESIGN.md 2.5a

The call-order passes of the single checks put one function's own calls before each other.  State can also leak *between* the public functions
(a memo on a base class shared by two graders, a table row patched by an option, a generator consumed by whoever comes first).  Here the alphabet is
grouped by event: for every event of the scoring and age-grading tables one group of ~35 calls on that event through every public function that
takes an event code (combined-events score with and without age, performance needed, the WMA wrappers for both genders, both table years and young
ages, the combined-events grader, the junior scoring systems, the code utilities).  From a restored pristine state every ordered pair (a, b) of a
group with b among the functions of the asking check is executed; b's answer must equal the answer of b made first.  For scoring functions the
better twin b' of b (the same call with a slightly better mark) is also run after (b, a): it must not score less than b did (the literal C05
statement on a history)."""
import json, os
from vlib import common, shared, orderpass
from vlib.common import Acc, pmap, merge

_G = {}

SCORERS = {'athlib.athlon_score', 'athlib.tyrving_score', 'athlib.qkids_score', 'athlib.sportshall_score', 'athlib.bulgarian_score', 'athlib.hungarian_score:score'}
TARGETS = {
    'C01': {'athlib.athlon_score'},
    'C09': {'athlib.athlon_performance_needed', 'athlib.athlon_score'},
    'C05': set(SCORERS),
    'C11': {'athlib.tyrving_score', 'athlib.qkids_score', 'athlib.sportshall_score', 'athlib.bulgarian_score'},
    'C14': {'athlib.wma_age_factor', 'athlib.wma_age_grade', 'athlib.wma_world_best', 'athlib.wma_athlon_age_factor', 'athlib.wma_athlon_age_grade'},
    'C15': {'athlib.wma_age_factor', 'athlib.wma_world_best'},
    'C10': {'athlib.discipline_sort_key', 'athlib.get_distance', 'athlib.text_discipline_sort_key'},
    'C12': {'athlib.check_performance_for_discipline'},
    'C07': {'athlib.normalize_event_code'},
    'C17': {'athlib.get_specific_event_code', 'athlib.get_implement_weight'},
}


def _fmt(sec):
    if sec < 60:
        return '%.2f' % sec
    m, s = divmod(sec, 60)
    if m < 60:
        return '%d:%05.2f' % (m, s)
    h, m = divmod(m, 60)
    return '%d:%02d:%05.2f' % (h, m, s)


def events():
    common.bind_repo()
    d = os.path.join(common.REPO, 'athlib', 'wma')
    tabs = {y: json.load(open(os.path.join(d, 'wma-data-%d.json' % y))) for y in (2015, 2023)}
    ath = common.mod('athlib.athlon_score')
    evs = []
    for row in ath._scoring_table:
        evs.append(row['event_code'])
    first_age = {}
    for y, t in tabs.items():
        ages = t['ages']
        for g in 'mf':
            for r in t[g]:
                evs.append(r[0])
                col = [i for i, v in enumerate(r[3:]) if v is not None]
                if col:
                    first_age.setdefault(r[0], set()).add(ages[col[0]])
    evs += ['7K', '2400', '5.3M', '60', '600', 'BT1K', 'SLJ', 'OT150', '1000W']
    # the events of the junior tables too (Sportshall, QuadKids)
    try:
        evs += list(common.mod('athlib.sportshall_score').load_data())
    except Exception:      # noqa
        evs += ['SHJ', 'STJ', 'BAL', 'SPB', 'TART', 'OHT', 'CHT']
    for tab in common.mod('athlib.qkids_score')._qkidsTables.values():
        evs += list(tab)
    return list(dict.fromkeys(evs)), first_age


def mark_for(e):
    codes, U = common.mod('athlib.codes'), common.mod('athlib.utils')
    if codes.PAT_THROWS.match(e):
        return 'field', 30.0, 30.01
    if codes.PAT_JUMPS.match(e):
        return ('field', 1.5, 1.51) if e.upper() in ('HJ', 'PV', 'SHJ') else ('field', 5.0, 5.01)
    if codes.PAT_MULTI.match(e):
        return 'multi', 4000, 4001
    try:
        dist = U.get_distance(e) or 100
    except Exception:     # noqa
        dist = 100
    # a plausible club-level mark (well inside every scoring table: the Hungarian parabola turns upwards again beyond its zero point)
    v = 3.2 if e.upper().endswith('W') else (7.0 if dist <= 400 else (6.0 if dist <= 1500 else 5.0))
    t = round(dist / v, 2)
    return 'timed', t, round(t - 0.01, 2)


def group(e, first_age):
    kind, m, better = mark_for(e)
    txt = _fmt(m) if kind == 'timed' else ('%d' % m if kind == 'multi' else '%.2f' % m)
    calls = []

    def add(path, args, kw=None, better_args=None, first_only=False):
        calls.append((path, tuple(args), kw or {}, tuple(better_args) if better_args else None, first_only))
    young = sorted(first_age.get(e, {35}))
    for G in 'MF':
        g = G.lower()
        add('athlib.athlon_score', (G, e, m), None, (G, e, better))
        add('athlib.athlon_score', (G, e, m, 50), None, (G, e, better, 50))
        add('athlib.athlon_score', (G, e, m, 72), None, (G, e, better, 72))
        add('athlib.athlon_performance_needed', (G, e, 600))
        add('athlib.wma_age_factor', (g, 52, e))
        add('athlib.wma_age_factor', (g, 52, e), dict(year=2015))
        for ya in young:
            add('athlib.wma_age_factor', (g, ya, e))
            add('athlib.wma_age_factor', (g, ya + 0.5, e.lower()), dict(year=2015))
        add('athlib.wma_age_grade', (g, 52, e, m))
        add('athlib.wma_age_factor', (G, 52, e.lower()), dict(year=2023))
        add('athlib.wma_age_factor', ({'m': 'male', 'f': 'Female'}[g], 52, e))
        add('athlib.wma_world_best', (g, e))
        add('athlib.wma_athlon_age_factor', (G, 52, e))
        add('athlib.wma_athlon_age_grade', (G, 52, e, m))
        add('athlib.tyrving_score', (G, 15, e, txt), None, (G, 15, e, (_fmt(better) if kind == 'timed' else '%.2f' % better) if kind != 'multi' else txt))
        add('athlib.bulgarian_score', ('U16', G, e, m), None, ('U16', G, e, better))
        add('athlib.hungarian_score:score', (G, 'OUT', e, m), None, (G, 'OUT', e, better))
        add('athlib.get_specific_event_code', (e, G, 'V50'))
        add('athlib.get_implement_weight', (e, G, 'V50'))
        add('athlib.check_performance_for_discipline', (e, txt, g))
    if e == '800':
        add('athlib.athlon_score', ('M', e, m, None, True), None, ('M', e, better, None, True))
    add('athlib.sportshall_score', (e, txt), None, (e, _fmt(better) if kind == 'timed' else '%.2f' % better))
    add('athlib.qkids_score', ('QKSEC', e, m), None, ('QKSEC', e, better))
    # calls that are REFUSED (wrong type or value of one argument, a code without a distance, an untabulated implement): whatever a refused call leaves
    # behind must not change later answers.  And graders the caller builds on table files of their own through the public constructors.
    for G in 'MF':
        g = G.lower()
        add('athlib.athlon_score', (G, e, 'abc'), first_only=True)
        add('athlib.athlon_score', (G, e, None), first_only=True)
        add('athlib.athlon_score', (G, e, m, 'x'), first_only=True)
        add('athlib.athlon_performance_needed', (G, e, 'abc'), first_only=True)
        add('athlib.wma_age_factor', (g, 50, 'XC'), first_only=True)
        add('athlib.wma_age_grade', (g, 25, '42', 5.5), first_only=True)            # accepted calls on distances outside the table (early exits)
        add('athlib.wma_age_factor', (g, 40, '300000'), first_only=True)
        add('athlib.wma_world_best', (g, '30'), first_only=True)
        add('athlib.wma_age_factor', (g, 50, 'SP4K'), first_only=True)
        add('athlib.wma_age_factor', (g, 'x', e), first_only=True)
        add('athlib.wma_age_grade', (g, 50, e, 'abc'), first_only=True)
        add('athlib.wma_age_grade', (g, 50, e, 0), first_only=True)
        add('athlib.wma_world_best', (g, 'XC'), first_only=True)
        add('athlib.wma_athlon_age_factor', (G, 'x', e), first_only=True)
        add('athlib.tyrving_score', (G, 15, e, 'abc'), first_only=True)
        add('athlib.tyrving_score', (G, 99, e, txt), first_only=True)
        add('athlib.bulgarian_score', ('U16', G, e, 'abc'), first_only=True)
        add('athlib.hungarian_score:score', (G, 'OUT', e, 'abc'), first_only=True)
        add('athlib.get_specific_event_code', (e, G, None), first_only=True)
        add('verif:own_athlon_grader_factor', (G, 52, e), first_only=True)
        add('verif:fresh_grader_factor', ('2015', g, 52, e), first_only=True)
        add('verif:other_table_grader_factor', (g, 52, e), first_only=True)
    add('athlib.athlon_score', ('M', '800', '2:05.30', None, True), first_only=True)
    add('athlib.wma_world_best', ('q', e), first_only=True)
    add('athlib.qkids_score', ('NOPE', e, m), first_only=True)
    add('athlib.sportshall_score', (e, 'abc'), first_only=True)
    add('athlib.check_performance_for_discipline', (e, 'abc'), first_only=True)
    add('athlib.check_performance_for_discipline', (e, ''), first_only=True)
    add('athlib.normalize_event_code', ('%% ' + e,), first_only=True)
    add('athlib.discipline_sort_key', (None,), first_only=True)
    add('athlib.normalize_event_code', (e.lower(),))
    add('athlib.get_distance', (e,))
    add('athlib.discipline_sort_key', (e,))
    add('athlib.text_discipline_sort_key', (e,))
    return calls


def _setup():
    if 'st' not in _G:
        common.bind_repo()
        for grp in _G['groups']:
            for c in grp:
                orderpass.resolve(c[0])
        _G['st'] = shared.SharedState('athlib')
        _G['pristine'] = _G['st'].capture()
    return _G


def _num(o):
    if o[0] != 'ret':
        return None
    try:
        v = eval(o[1], {'__builtins__': {}}, {})
        return v if isinstance(v, (int, float)) and not isinstance(v, bool) else None
    except Exception:    # noqa
        return None


def _work(chunk):
    gids, = chunk
    G = _setup()
    st, pristine, targets = G['st'], G['pristine'], G['targets']
    out = orderpass.outcome
    acc = Acc()
    for gi in gids:
        calls = G['groups'][gi]
        alone = []
        for c in calls:
            st.restore(pristine)
            alone.append(out(c[:3]))
        for j, b in enumerate(calls):
            if b[0] not in targets or b[4]:
                continue
            twin = (b[0], b[3], b[2]) if (b[3] and b[0] in SCORERS) else None
            if twin:
                # only where the better mark does not score less when both are scored from the pristine state (the grids decide that part; the Hungarian
                # parabola, for one, turns upwards again beyond its zero point)
                st.restore(pristine)
                t0 = _num(out(twin))
                if t0 is None or _num(alone[j]) is None or t0 < _num(alone[j]):
                    twin = None
            for i, a in enumerate(calls):
                st.restore(pristine)
                ra = out(a[:3])
                rb = out(b[:3])
                acc.n += 1
                hist = [list(map(repr, a[:3])), list(map(repr, b[:3]))]
                if a[0] in targets and ra != alone[i]:
                    acc.bad('answer-depends-on-earlier-calls:%s' % a[0].split(':')[-1].split('.')[-1], dict(history=hist[:1]), 'a call made first from the restored state gives %r, earlier %r' % (ra, alone[i]))
                if rb != alone[j]:
                    acc.bad('answer-depends-on-earlier-calls:%s' % b[0].split(':')[-1].split('.')[-1], dict(history=hist),
                            'second call of the history gives %r; made first it gives %r' % (rb, alone[j]))
                    continue
                acc.nontrivial += 1
                if twin:
                    # worse mark, any call in between, better mark: the better one must not score less
                    st.restore(pristine)
                    r1 = out(b[:3])
                    out(a[:3])
                    r2 = out(twin)
                    acc.n += 1
                    n1, n2 = _num(r1), _num(r2)
                    if n1 is not None and (n2 is None or n2 < n1):
                        acc.bad('better-mark-fewer-points-after-another-call:%s' % b[0].split(':')[-1].split('.')[-1],
                                dict(history=[list(map(repr, b[:3])), hist[0], list(map(repr, twin))]), 'the worse mark scored %r, then after the call in between the better mark scored %r' % (r1, r2))
    st.restore(pristine)
    if not acc.samples and gids:
        c = G['groups'][gids[0]]
        acc.samples.append(dict(cross_api_pair=[repr(c[0][:3]), repr(c[-1][:3])]))
    return acc.pack()


def part(rep, pid, tier='quick'):
    from vlib import callhelpers
    with callhelpers.table_dir():
        callhelpers.custom_athlon_table()
        t = _part(rep, pid, tier)
    saturation(rep, pid, tier)
    return t


def _part(rep, pid, tier='quick'):
    evs, first_age = events()
    if pid == 'C15':
        # C15 is about distances that are not tabulated: its groups are such codes only (the tabulated rows are C14's)
        evs = ['7K', '2400', '5.3M', '7000', '11K', '30', '300000', '9.3M', '1609', '3.1M']
    groups = [group(e, first_age) for e in evs]
    _G.clear()
    _G['groups'] = groups
    _G['targets'] = TARGETS[pid]
    n = len(groups)
    nchunks = min(n, common.NPROC * 2)
    ncalls = sum(len(g) for g in groups)
    t = merge(rep, pmap(_work, [(list(range(i, n, nchunks)),) for i in range(nchunks)]),
              part='cross-API call-order pass: %d events, %d calls; per event every ordered pair (any public function on that event, then a function of this check) '
                   'from a restored state, second answer vs the same call made first' % (n, ncalls))
    interpreter_modes(rep, pid)
    rep.assumptions.append('cross-API pass: one group of calls per event code (same event through every public function that takes one); pairs across different events are '
                           'left to the per-check call-order passes')
    return t


def interpreter_modes(rep, pid):
    """the same calls, each made first in a fresh interpreter started normally, with -O and with -OO: the answers must not depend on assert statements or
    docstrings being present"""
    import subprocess, sys
    res = {}
    MODES = ('', '-O', '-OO', 'debug-logging', 'decimal-ROUND_DOWN', 'decimal-ROUND_CEILING', 'line-tracer')
    for flag in MODES:
        cmd = [sys.executable] + ([flag] if flag.startswith('-') else []) + ['-m', 'vlib.interprun', pid]
        env = dict(os.environ, PYTHONHASHSEED='0')
        env.pop('VERIF_AMBIENT', None)
        if not flag.startswith('-') and flag:          # not an interpreter flag: the host application has switched DEBUG logging on before importing anything
            env['VERIF_AMBIENT'] = flag
        p = subprocess.run(cmd, cwd=common.VERIF, env=env, capture_output=True, text=True)
        line = [l for l in p.stdout.splitlines() if l.startswith('INTERP-RESULT ')]
        if p.returncode != 0 or not line:
            raise common.HarnessError('interpreter-mode pass failed to run (%s): %s' % (flag or 'default', (p.stderr or p.stdout)[-800:]))
        res[flag] = json.loads(line[-1][len('INTERP-RESULT '):])
    if res['-O']['optimize'] != 1 or res['-OO']['optimize'] != 2:
        raise common.HarnessError('interpreter flags did not take effect')
    acc = Acc()
    base = res['']['answers']
    for flag in MODES[1:]:
        other = res[flag]['answers']
        if len(other) != len(base):
            raise common.HarnessError('interpreter-mode pass: call lists differ')
        for (c0, a0), (c1, a1) in zip(base, other):
            acc.n += 1
            if a0 != a1:
                fn = c0.split(',')[0].strip("('").split(':')[-1].split('.')[-1]
                acc.bad('answer-depends-on-interpreter-mode:%s:%s' % (flag, fn), dict(call=c0, interpreter=flag), 'python %s gives %r, the default interpreter %r' % (flag, a1, a0))
            else:
                acc.nontrivial += 1
    if base:
        acc.samples.append(dict(interpreter_modes=['default', '-O', '-OO'], call=base[0][0], answer=base[0][1]))
    merge(rep, [acc.pack()], part='interpreter modes: every cross-API call of this check made first under python, python -O, python -OO, with DEBUG logging switched on by the host, and with the decimal context of the host rounding down / towards +inf, and under a line tracer that reads the local variables of every frame (%d calls)' % len(base))


# ------------------------------------------------------------------------------------------------
# saturation: a bounded store of recent answers goes wrong only once it is full - the same call again after 65 ... 2049 other distinct calls of the function

def _fillers(path, probe):
    """up to ~2100 distinct calls of the same function, none equal to the probe (deterministic order)"""
    evs, first_age = _G_SAT['events']
    out = []
    if path.startswith('athlib.wma_'):
        for age in range(35, 100):
            for e in evs[:40]:
                for g in 'mf':
                    if path.endswith('world_best'):
                        out.append((path, (g, e), {}))
                    elif path.endswith('age_grade'):
                        out.append((path, (g, age, e, mark_for(e)[1]), {}))
                    elif 'athlon' in path:
                        out.append((path, (g.upper(), age, e), {}))
                    else:
                        out.append((path, (g, age, e), {}))
            if len(out) > 4400:
                break
    else:
        k = 0
        while len(out) < 2200 and k < 60:
            for e in evs:
                for c in group(e, first_age):
                    if c[0] == path and not c[4]:
                        args = list(c[1])
                        # vary the first plain number among the arguments (a mark, a target, an age) so that every filler is a distinct call
                        for i, a in enumerate(args):
                            if isinstance(a, (int, float)) and not isinstance(a, bool):
                                args[i] = a + k if isinstance(a, int) else round(a * (1 + k / 100.0), 2)
                                break
                            if isinstance(a, str) and a.replace('.', '', 1).isdigit() and i == len(args) - 1:
                                args[i] = '%.2f' % (float(a) * (1 + k / 100.0))
                                break
                        else:
                            if k:
                                continue
                        out.append((path, tuple(args), c[2]))
            k += 1
    seen, res = {(probe[0], probe[1], tuple(probe[2].items()))}, []
    for c in out:
        key = (c[0], c[1], tuple(c[2].items()))
        if key not in seen:
            seen.add(key)
            res.append(c)
    return res


_G_SAT = {}
CHECKPOINTS = (65, 129, 257, 513, 1025, 2049)      # quick tier: up to 1025


def _sat_work(chunk):
    probes, = chunk
    G = _setup()
    st, pristine = G['st'], G['pristine']
    out = orderpass.outcome
    acc = Acc()
    for p in probes:
        st.restore(pristine)
        want = out(p)
        fill = _fillers(p[0], p)
        st.restore(pristine)
        first = out(p)
        n = 0
        ok = first == want
        for cp in CHECKPOINTS:
            if len(fill) < cp or (cp > 1025 and not _G_SAT.get('deep')):
                break
            while n < cp:
                out(fill[n])
                n += 1
            acc.n += 1
            got = out(p)
            if got != want:
                ok = False
                acc.bad('answer-depends-on-earlier-calls:%s:after-%d-other-calls' % (p[0].split(':')[-1].split('.')[-1], cp), dict(history=[list(map(repr, p))], fillers=cp),
                        'the call gives %r after %d other distinct calls of the same function; made first it gives %r' % (got, cp, want))
                break
            # the first filler again too (the oldest entry of a store that has just been full)
            st2 = out(fill[0])
        if ok:
            acc.nontrivial += 1
        acc.add('filler_calls', n)
    st.restore(pristine)
    if probes and not acc.samples:
        acc.samples.append(dict(saturation_probe=repr(probes[0]), checkpoints=list(CHECKPOINTS)))
    return acc.pack()


def saturation(rep, pid, tier='quick'):
    evs, first_age = events()
    _G_SAT['events'] = (evs, first_age)
    _G_SAT['deep'] = tier == 'thorough'
    targets = TARGETS[pid]
    probes = []
    for e in ('100', 'HJ', '5K', 'SP', evs[3]):
        for c in group(e, first_age):
            if c[0] in targets and not c[4]:
                probes.append((c[0], c[1], c[2]))
    # two probes per function
    per = {}
    sel = []
    for p in probes:
        if per.get(p[0], 0) < (2 if tier == 'thorough' else 1):
            per[p[0]] = per.get(p[0], 0) + 1
            sel.append(p)
    _G.clear()
    _G['groups'] = [[(p[0], p[1], p[2], None, False) for p in sel]]
    _G['targets'] = targets
    from vlib import callhelpers
    with callhelpers.table_dir():
        n = max(1, min(len(sel), common.NPROC))
        return merge(rep, pmap(_sat_work, [(sel[i::n],) for i in range(n)]),
                     part='saturation: %d probe calls, each asked again after %s other distinct calls of the same function' % (len(sel), '/'.join(map(str, CHECKPOINTS))))


# ------------------------------------------------------------------------------------------------
# ambient numeric context on a grid: the host application has changed the decimal context of the calling thread (a directed rounding mode for its own
# sums, three significant digits for display); a function that does its own arithmetic inside a local context that pins only part of it gives other answers

def ambient_grid(rep, calls, label):
    import decimal
    common.bind_repo()
    out = orderpass.outcome
    calls = [(c[0], tuple(c[1]), dict(c[2]) if len(c) > 2 else {}) for c in calls]
    for c in calls[:1]:
        orderpass.resolve(c[0])
    base = [out(c) for c in calls]
    acc = Acc()
    ctx = decimal.getcontext()
    saved = (ctx.rounding, ctx.prec)
    try:
        for mode in ('ROUND_DOWN', 'ROUND_CEILING', 'ROUND_UP', 'ROUND_FLOOR', 'ROUND_HALF_UP', 'prec=3'):
            ctx.rounding, ctx.prec = saved
            if mode == 'prec=3':
                ctx.prec = 3
            else:
                ctx.rounding = getattr(decimal, mode)
            for c, b in zip(calls, base):
                acc.n += 1
                got = out(c)
                if got != b:
                    acc.bad('answer-depends-on-ambient-decimal-context:%s:%s' % (mode, c[0].split(':')[-1].split('.')[-1]), dict(call=repr(c), interpreter='decimal-' + mode if mode != 'prec=3' else mode),
                            'with the decimal context of the calling thread set to %s the call gives %r, under the default context %r' % (mode, got, b))
                else:
                    acc.nontrivial += 1
    finally:
        ctx.rounding, ctx.prec = saved
    if calls:
        acc.samples.append(dict(ambient_decimal_context=['ROUND_DOWN', 'ROUND_CEILING', 'ROUND_UP', 'ROUND_FLOOR', 'ROUND_HALF_UP', 'prec=3'], call=repr(calls[0]), answer=list(base[0])))
    return merge(rep, [acc.pack()], part='%s: %d calls under six ambient decimal contexts (directed rounding modes, three significant digits), each answer vs the default context' % (label, len(calls)))
