"""C01 - combined-events points equal the official formula on the decimal mark.   DESIGN.md 3/C01.

Whole 0.01 grid of every (gender, event) row, with and without age factors, against an exact-arithmetic oracle
(Decimal; the power is decided in floating point outside a guard band and with 60-digit Decimal inside it)."""
import json, os, math
from decimal import Decimal, getcontext, ROUND_FLOOR, ROUND_CEILING
from checks import crossapi
from vlib import common
from vlib.common import Report, Violation, HarnessError, Acc, pmap, merge

PID = 'C01'
ALIASES = {('F', '80H'): '100H', ('M', '80H'): '110H', ('M', '100H'): '110H'}
ESAA = dict(A='0.232', Z='200.0', X='1.85')
UNKNOWN = [('?', '100'), ('NA', 'NA'), ('M', 'XX'), ('X', 'HJ'), ('M', ''), ('F', '110H'), ('', 'LJ'), ('m', '4x100')]
_G = {}


def setup():
    if 'rows' in _G:
        return _G
    athlib = common.bind_repo()
    m = common.mod('athlib.athlon_score')
    rows = {}
    for o in m._scoring_table:
        rows[(o['gender'], o['event_code'])] = dict(A=Decimal(repr(o['A'])), Z=Decimal(repr(o['Z'])), X=Decimal(repr(o['X'])), ev=o['event_code'])
    for (g, e), tgt in ALIASES.items():
        rows[(g, e)] = dict(rows[(g, tgt)], ev=tgt)
    with open(os.path.join(common.REPO, 'athlib', 'wma', 'wma-athlons-data.json')) as f:
        wma = json.load(f)
    _G.update(rows=rows, wma=wma, score=athlib.athlon_score,
              jumps=common.mod('athlib.codes').PAT_JUMPS, throws=common.mod('athlib.codes').PAT_THROWS)
    return _G


def kind_of(G, scoring_event):
    if G['jumps'].match(scoring_event):
        return 'jump'
    if G['throws'].match(scoring_event):
        return 'throw'
    return 'timed'


def wma_factor(G, gender, event, age):
    """independent band lookup: 5*floor(age/5) capped at the last column; hurdles <=110 m -> SH, >=200 m -> LH.
    Returns Decimal, or None when the table has no factor for the event."""
    if age is None or age < 35:
        return Decimal(1)
    ev = event.upper()
    if ev.endswith('H') and ev not in ('LH', 'SH', '60H'):
        d = int(ev[:-1])
        if d <= 110:
            ev = 'SH'
        elif d >= 200:
            ev = 'LH'
        else:
            return None
    ages = G['wma']['ages']
    band = int(min(5 * (age // 5), ages[-1]))
    col = ages.index(band)
    for row in G['wma'][gender.lower()]:
        if row[0] == ev:
            return Decimal(repr(row[col]))
    return None


def exact_points(A, Z, X, d):
    """floor(A * d**X) for Decimal d > 0"""
    fv = float(A) * float(d) ** float(X)
    near = abs(fv - round(fv))
    if near > 1e-6 * max(1.0, fv):
        return int(math.floor(fv)), False
    getcontext().prec = 60
    if d == 1:
        val = A
    else:
        val = A * (d.ln() * X).exp()
    return int(val.to_integral_value(rounding=ROUND_FLOOR)), True


def oracle(G, row, cs, factor, coeffs=None):
    c = coeffs or row
    A, Z, X = c['A'], c['Z'], c['X']
    knd = kind_of(G, row['ev'])
    x100 = Decimal(cs) * factor            # hundredths, exact
    if knd == 'timed':
        v = x100.to_integral_value(rounding=ROUND_CEILING) / 100
        d = Z - v
    elif knd == 'throw':
        v = x100.to_integral_value(rounding=ROUND_FLOOR) / 100
        d = v - Z
    else:
        v = x100.to_integral_value(rounding=ROUND_FLOOR)      # centimetres
        d = v - Z
    if d <= 0:
        return 0, False
    return exact_points(A, Z, X, d)


def grid_hi(G, key):
    row = G['rows'][key]
    knd = kind_of(G, row['ev'])
    if knd == 'timed':
        return int(row['Z'] * 100) + 50
    if knd == 'jump':
        return 2500
    return 12000


def work(chunk):
    key, lo, hi, ages, esaa, step = chunk[:6]
    spell = chunk[6] if len(chunk) > 6 else None        # (gender spelling, event spelling) passed to the function
    optional = len(chunk) > 7 and chunk[7]              # a spelling that may be treated as an unknown pair (None / ValueError); if it is scored it must be right
    G = setup()
    g, e = key
    row = G['rows'][key]
    score = G['score']
    acc = Acc()
    coeffs = dict(A=Decimal(ESAA['A']), Z=Decimal(ESAA['Z']), X=Decimal(ESAA['X'])) if esaa else None
    gs, es = spell or (g, e)
    prev_pts = None
    for age in ages:
        F = wma_factor(G, g, e, age)
        prev_pts = None
        for cs in range(lo, hi, step):
            forms = [cs / 100.0]
            if cs % 100 == 0:
                forms.append(cs // 100)
            # the same decimal mark as it comes out of ordinary float arithmetic (not the nearest double): n x 0.01, minutes x 60 + seconds
            for alt in (cs * 0.01, (cs // 6000) * 60 + (cs % 6000) / 100.0):
                if alt not in forms:
                    forms.append(alt)
                    acc.add('marks_from_float_arithmetic')
            if F is None:
                # no WMA factor for this event: outside the stated domain; only the exception type is looked at
                try:
                    score(g, e, forms[0], age)
                except ValueError:
                    pass
                except Exception as ex:
                    acc.bad('no-factor-row-raises:%s' % type(ex).__name__, dict(gender=g, event=e, mark=forms[0], age=age), repr(ex))
                acc.n += 1
                break
            want, hard = oracle(G, row, cs, F, coeffs)
            if hard:
                acc.add('decided_with_60_digits')
            if (cs * 100) % 1 == 0 and (cs / 100.0) * 100 != cs:
                acc.add('marks_not_integral_in_binary')
            for v in forms:
                acc.n += 1
                case = dict(gender=gs, event=es, mark=v, age=age, esaa=esaa)
                try:
                    got = score(gs, es, v, age, esaa) if esaa else (score(gs, es, v, age) if age is not None else score(gs, es, v))
                except Exception as ex:
                    if optional and isinstance(ex, ValueError):
                        acc.add('optional_spellings_refused')
                        continue
                    acc.bad('score-raises:%s:%s' % (type(ex).__name__, 'age<35' if age is not None and age < 35 else 'age>=35' if age else 'no-age'),
                            case, 'raised %r; exact formula gives %d' % (ex, want))
                    continue
                if optional and got is None:
                    acc.add('optional_spellings_refused')
                    continue
                if type(got) is not int or got != want:
                    band = 'no-age' if age is None else ('age<35' if age < 35 else 'age>=35')
                    acc.bad('points-differ-from-exact-formula:%s:%s%s' % (kind_of(G, row['ev']), band, ':spelling-variant' if spell else ''), case,
                            'score=%r, exact formula on the decimal mark gives %d (factor %s)' % (got, want, F))
                elif want > 0:
                    acc.nontrivial += 1
        if len(acc.samples) < 1 and F is not None:
            cs = (lo + hi) // 2
            acc.samples.append(dict(gender=g, event=e, mark=cs / 100.0, age=age, points=oracle(G, row, cs, F, coeffs)[0]))
    return acc.pack()


def history_pass(G):
    """for every row: all ordered triples (o1, o2, o1) of option settings on a few marks, every call compared with the oracle"""
    score = G['score']
    acc = Acc()
    esaa_c = dict(A=Decimal(ESAA['A']), Z=Decimal(ESAA['Z']), X=Decimal(ESAA['X']))
    keys = sorted(G['rows'])
    for key in keys:
        g, e = key
        row = G['rows'][key]
        hi = grid_hi(G, key)
        marks = [int(hi * f) for f in (0.35, 0.5, 0.62, 0.8)]
        opts = [dict(age=None, esaa=False)]
        if wma_factor(G, g, e, 50) is not None:
            opts += [dict(age=50, esaa=False), dict(age=72, esaa=False)]
        opts.append(dict(age=None, esaa=True))          # the ESAA option only changes M-800
        # rows sharing coefficients (veterans' aliases) are part of the history too
        partners = [k for k in keys if k != key and G['rows'][k]['ev'] == row['ev'] and k[0] == g]

        def one(k2, cs, o):
            acc.n += 1
            r2 = G['rows'][k2]
            F = wma_factor(G, k2[0], k2[1], o['age'])
            if F is None:
                return
            co = esaa_c if (o['esaa'] and k2 == ('M', '800')) else None
            want = oracle(G, r2, cs, F, co)[0]
            try:
                got = score(k2[0], k2[1], cs / 100.0, o['age'], o['esaa'])
            except Exception as ex:
                got = 'raised %r' % ex
            if got != want:
                acc.bad('points-depend-on-call-history', dict(gender=k2[0], event=k2[1], mark=cs / 100.0, age=o['age'], esaa=o['esaa'], after=hist[-3:]),
                        'score=%r, exact formula gives %d, after the calls %r' % (got, want, hist[-3:]))
            else:
                acc.nontrivial += 1
            hist.append([k2[0], k2[1], cs / 100.0, o['age'], o['esaa']])
        for cs in marks:
            for o1 in opts:
                for o2 in opts:
                    hist = []
                    one(key, cs, o1)
                    one(key, cs, o2)
                    one(key, cs, o1)
                    for k2 in partners:
                        one(k2, cs, o2)
                        one(key, cs, o1)
    # histories ACROSS rows: every ordered pair of rows that share the event (the other gender) or the gender (a neighbouring event), masters ages in the
    # same and in neighbouring bands, each answer against the formula
    for key in keys:
        g, e = key
        others = [k for k in keys if k != key and (k[1] == e or (k[0] == g and abs(keys.index(k) - keys.index(key)) <= 2))]
        cs1 = int(grid_hi(G, key) * 0.6)
        for k2 in others:
            cs2 = int(grid_hi(G, k2) * 0.6)
            for a1, a2 in ((52, 50), (50, 52), (67, 65), (52, None), (None, 52), (52, 57), (36, 39)):
                hist = []
                one(key, cs1, dict(age=a1, esaa=False))
                one(k2, cs2, dict(age=a2, esaa=False))
                one(key, cs1, dict(age=a1, esaa=False))
    acc.samples.append(dict(history=[['M', '800', 120.0, None, True], ['M', '800', 120.0, None, False], ['M', '800', 120.0, 50, False]]))
    return acc.pack()


FACTOR_AGES_QUICK = [35, 72]
ALL_BANDS = list(range(35, 116, 5))


def run(tier):
    rep = Report(PID, tier, 'exploration')
    G = setup()
    keys = sorted(G['rows'])
    if len(keys) != 51:
        rep.assumptions.append('%d (gender,event) rows incl. 3 aliases (51 at the pinned commit; with the ESAA option 52)' % len(keys))
    # (1) whole grid, no age
    chunks = []
    for k in keys:
        hi = grid_hi(G, k)
        for a, b in common.split_range(0, hi + 1, max(1, (hi + 1) // 20000)):
            chunks.append((k, a, b, [None], False, 1))
    hi = grid_hi(G, ('M', '800'))
    for a, b in common.split_range(0, hi + 1, 2):
        chunks.append((('M', '800'), a, b, [None], True, 1))
    t1 = merge(rep, pmap(work, chunks), part='whole 0.01 grid, no age (52 rows incl. ESAA 800)')
    # (2) every age 1..110 (and 111..114: still inside the last band) on a window of each row
    chunks = []
    for k in keys:
        row = G['rows'][k]
        knd = kind_of(G, row['ev'])
        mid = int(row['Z'] * 100 * Decimal('0.6')) if knd == 'timed' else (int(row['Z']) + 150 if knd == 'jump' else int(row['Z'] * 100) + 1500)
        chunks.append((k, mid, mid + (200 if tier == 'quick' else 1000), list(range(1, 115)), False, 1))
        # ages that are not whole numbers (worked out from dates): the band is that of the completed years
        chunks.append((k, mid, mid + (40 if tier == 'quick' else 400), [34.5, 34.6, 34.99, 35.0, 35.01, 39.5, 39.7, 40.0, 44.5, 44.9, 49.5, 52.25, 59.51, 64.999, 99.99, 104.5], False, 1))
        # ages that mean "no age": 0, False, 0.0, negative
        chunks.append((k, mid, mid + 20, [0, False, 0.0, -1, -40.5], False, 1))
        # marks far beyond the end of the grid (up to 40 times the zero point / 25 m / 120 m): still a non-negative int, still the formula
        top = grid_hi(G, k)
        chunks.append((k, top, top * 40, [None, 50], False, max(1, top * 39 // 60)))
    t2 = merge(rep, pmap(work, chunks), part='every age 1..114 on a window of each row; fractional, zero and negative ages; marks far beyond the grid')
    # (2b) letter-case spellings of gender and event (the scoring key is case-insensitive) on a window of each table row
    chunks = []
    for k in keys:
        if k in ALIASES:
            continue
        g, e = k
        row = G['rows'][k]
        knd = kind_of(G, row['ev'])
        mid = int(row['Z'] * 100 * Decimal('0.6')) if knd == 'timed' else (int(row['Z']) + 150 if knd == 'jump' else int(row['Z'] * 100) + 1500)
        sps = [(g.lower(), e), (g, e.lower()), (g.lower(), e.lower()), (g, e.capitalize())]
        for sp in dict.fromkeys(sps):
            if sp != (g, e):
                chunks.append((k, mid, mid + 400, [None, 50], False, 1, sp))
    merge(rep, pmap(work, chunks), part='letter-case spellings of gender / event on a window of each row (ages none, 50)')
    # (2c) spellings with blanks inside or around the event code or gender: may count as an unknown pair, but if scored the points must be right
    chunks = []
    for k in keys:
        if k in ALIASES:
            continue
        g, e = k
        row = G['rows'][k]
        knd = kind_of(G, row['ev'])
        mid = int(row['Z'] * 100 * Decimal('0.6')) if knd == 'timed' else (int(row['Z']) + 150 if knd == 'jump' else int(row['Z'] * 100) + 1500)
        import re as _re
        inner = _re.sub(r'(?<=\d)(?=[A-Za-z])', ' ', e)
        sps = [(g, ' ' + e), (g, e + ' '), (g, inner), (g, inner.lower()), (g, _re.sub(r'(?<=\d)(?=[A-Za-z])', '\t', e)), (' ' + g, e), (g + ' ', e)]
        for sp in dict.fromkeys(sps):
            if sp != (g, e):
                chunks.append((k, mid, mid + 60, [None, 37, 50, 72], False, 1, sp, True))
    merge(rep, pmap(work, chunks), part='spellings with blanks in or around event code / gender (optional: unknown pair or right)')
    # (3) bands on the full grid of the rows that have a factor
    ages = FACTOR_AGES_QUICK if tier == 'quick' else ALL_BANDS
    chunks = []
    for k in keys:
        if wma_factor(G, k[0], k[1], 50) is None:
            continue
        hi = grid_hi(G, k)
        # age-adjusted times shrink: extend the grid so the zero point is still passed
        for age in ages:
            F = wma_factor(G, k[0], k[1], age)
            top = int(hi / float(F)) + 50 if kind_of(G, G['rows'][k]['ev']) == 'timed' else hi
            top = min(top, 200000)
            for a, b in common.split_range(0, top + 1, max(1, (top + 1) // 6000)):
                chunks.append((k, a, b, [age], False, 1))
    t3 = merge(rep, pmap(work, chunks), part='age bands %r on the full grid of rows with a WMA factor' % (ages,))
    # (3b) option / call-order histories in ONE process: the points for a mark must not depend on which other
    # option combinations (age, ESAA, alias rows of the same coefficients) were scored before it
    merge(rep, [history_pass(G)], part='call-order histories over option settings (one process)')
    # (4) unknown pairs
    acc = Acc()
    for (g, e) in UNKNOWN:
        for age in (None, 50):
            for v in (10.5, 3, 0):
                acc.n += 1
                try:
                    r = G['score'](g, e, v, age)
                    if r is not None:
                        acc.bad('unknown-pair-gets-score', dict(gender=g, event=e, mark=v, age=age), 'returned %r' % (r,))
                except Exception as ex:
                    acc.bad('unknown-pair-raises:%s:%s' % (type(ex).__name__, 'with-age' if age else 'no-age'),
                            dict(gender=g, event=e, mark=v, age=age), 'raised %r instead of returning None' % (ex,))
    merge(rep, [acc.pack()], part='unknown gender/event pairs')
    c = rep.coverage
    c['rule'] = ('every centi-unit mark from 0 to past the zero point (timed) / 25 m (jumps) / 120 m (throws) of every row, as float and as int when integral; '
                 'every age 1..114 on a window; bands on the full grid; non-trivial = marks with positive points that agree with the exact formula')
    c['exhaustive'] = True
    nb = t1['extra'].get('marks_not_integral_in_binary', 0)
    c['marks_not_integral_in_binary'] = nb
    c['floors_decided_with_60_digit_arithmetic'] = sum(t['extra'].get('decided_with_60_digits', 0) for t in (t1, t2, t3))
    if nb < 0.05 * t1['n']:
        raise HarnessError('vacuous: only %d of %d marks are non-integral in binary' % (nb, t1['n']))
    rep.assumptions += ['coefficients are the decimal text of the table in athlib/athlon_score.py; WMA factors are read from wma-athlons-data.json by the check',
                        'glibc pow is within 1e-9 relative (only used to decide when 60-digit Decimal evaluation is needed)',
                        '(row, age) pairs whose event has no WMA factor are outside the domain: ValueError or a value accepted']
    # the same function on a thinned grid of every row with the decimal context of the calling thread changed by the host application
    amb = []
    for key in sorted(G['rows']):
        g, e = key
        hi = grid_hi(G, key)
        for cs in range(1, hi, max(1, hi // 300)):
            amb.append(('athlib.athlon_score', (g, e, cs / 100.0)))
            if cs % 3 == 0:
                amb.append(('athlib.athlon_score', (g, e, cs / 100.0, 52)))
    crossapi.ambient_grid(rep, amb, 'ambient decimal context')
    crossapi.part(rep, PID, tier)
    return rep.finish()


def replay(rec):
    G = setup()
    c = rec['case']
    key = (c['gender'], c['event'])
    try:
        got = G['score'](c['gender'], c['event'], c['mark'], c.get('age'), c.get('esaa', False))
    except Exception as e:
        got = 'raised %r' % e
    print('athlon_score(%r, %r, %r, age=%r) = %s' % (c['gender'], c['event'], c['mark'], c.get('age'), got))
    if key in G['rows']:
        F = wma_factor(G, c['gender'], c['event'], c.get('age'))
        if F is not None:
            print('exact formula:', oracle(G, G['rows'][key], int(round(c['mark'] * 100)), F)[0], 'factor', F)
    print(rec['sig'], '-', rec['msg'])
    return 1
