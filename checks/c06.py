"""C06 - times are never rounded down: decimal rounding, formatting and parsing agree.   DESIGN.md 3/C06.
(i) round_up_str_num on every digit string I.F (|I|<=4, |F|<=7) over a digit alphabet x precision 0..5 against an exact Decimal
ceiling; (ii) format_seconds_as_time on the 0.001 s grid, around every minute/hour seam up to 100 h and on floats with arithmetic
residue, x precision 0..3; (iii) parse_hms on every 1-3 field string over a field set, both separators, plus junk."""
import itertools, math, re
from decimal import Decimal, ROUND_CEILING, ROUND_FLOOR
from fractions import Fraction
from vlib import concpass
from vlib import common
from vlib import orderpass
from vlib.common import Report, Violation, HarnessError, Acc, pmap, merge

PID = 'C06'


def U():
    return common.mod('athlib.utils')


# ---- (i)
def rus_oracle(s, prec, maxdp=5):
    if '.' in s:
        i, f = s.split('.')
    else:
        i, f = s, ''
    f = f[:maxdp]
    v = Decimal((i or '0') + '.' + (f or '0'))
    q = Decimal(1).scaleb(-prec)
    return (v / q).to_integral_value(rounding=ROUND_CEILING) * q


def rus_check(acc, s, prec):
    acc.n += 1
    case = dict(s=s, prec=prec)
    try:
        r = U().round_up_str_num(s, prec)
    except Exception as e:
        acc.bad('round_up:raises-%s' % type(e).__name__, case, repr(e))
        return
    want = rus_oracle(s, prec)
    ok_fmt = isinstance(r, str) and re.match(r'^\d+$' if prec == 0 else r'^\d+\.\d{%d}$' % prec, r)
    if not ok_fmt:
        cls = 'empty-result' if r == '' else 'malformed-result'
        acc.bad('round_up:%s' % cls, case, 'round_up_str_num(%r,%d) = %r, ceiling is %s' % (s, prec, r, want))
        return
    if Decimal(r) != want:
        acc.bad('round_up:not-the-ceiling:%s' % ('below' if Decimal(r) < want else 'above'), case, 'round_up_str_num(%r,%d) = %r, ceiling is %s' % (s, prec, r, want))
    else:
        acc.nontrivial += 1 if Decimal(r) != Decimal((s.split('.')[0] or '0')) else 0


def rus_work(chunk):
    digits, ilens, flens, ints = chunk
    acc = Acc()
    for I in ints:
        for fl in flens:
            for Ft in itertools.product(digits, repeat=fl):
                F = ''.join(Ft)
                s = I + '.' + F
                for prec in range(6):
                    rus_check(acc, s, prec)
        for prec in range(6):
            rus_check(acc, I, prec)           # no '.'
    if not acc.samples:
        acc.samples.append(dict(s=ints[0] + '.995', prec=2, result=U().round_up_str_num(ints[0] + '.995', 2)))
    return acc.pack()


# ---- (ii)
def exact_parse(text):
    v = Fraction(0)
    for f in text.split(':'):
        v = v * 60 + Fraction(Decimal(f))
    return v


def fsat_check(acc, x, prec):
    acc.n += 1
    case = dict(seconds=x, prec=prec)
    try:
        t = U().format_seconds_as_time(x, prec)
    except Exception as e:
        acc.bad('format:raises-%s' % type(e).__name__, case, repr(e))
        return
    m = re.match(r'^(?:(\d+):(\d\d):(\d\d)|(\d{1,2}):(\d\d)|(\d{1,2}))(?:\.(\d+))?$', t) if isinstance(t, str) else None
    if not m:
        acc.bad('format:malformed-text', case, 'format_seconds_as_time(%r,%d) = %r' % (x, prec, t))
        return
    h, mm, ss, m2, s2, s1, dec = m.groups()
    fields_ok = (int(mm) < 60 and int(ss) < 60) if h is not None else (int(s2) < 60 if m2 is not None else int(s1) < 60)
    if not fields_ok:
        acc.bad('format:field-not-below-60', case, 'format_seconds_as_time(%r,%d) = %r' % (x, prec, t))
        return
    if len(dec or '') != prec:
        acc.bad('format:wrong-number-of-decimals', case, 'format_seconds_as_time(%r,%d) = %r' % (x, prec, t))
        return
    # noise aside: digits beyond the fifth decimal of the duration are ignored
    x5 = Fraction((Decimal(x) * 100000).to_integral_value(rounding=ROUND_FLOOR)) / 100000
    back = exact_parse(t)
    unit = Fraction(1, 10 ** prec)
    if back < x5:
        acc.bad('format:rounded-down', case, 'format_seconds_as_time(%r,%d) = %r, which is below the duration' % (x, prec, t))
    elif back >= x5 + unit:
        acc.bad('format:a-unit-or-more-above', case, 'format_seconds_as_time(%r,%d) = %r, a whole unit of the last digit above the duration' % (x, prec, t))
    else:
        try:
            p = U().parse_hms(t)
            if not math.isclose(p, float(back), rel_tol=1e-12, abs_tol=1e-9):
                acc.bad('format:does-not-parse-back', case, 'parse_hms(%r) = %r' % (t, p))
            else:
                acc.nontrivial += 1
        except Exception as e:
            acc.bad('format:does-not-parse-back', case, 'parse_hms(%r) raised %r' % (t, e))


def fsat_work(chunk):
    kind, a, b = chunk
    acc = Acc()
    if kind == 'grid':
        for k in range(a, b):
            x = k / 1000.0
            for prec in range(4):
                fsat_check(acc, x, prec)
                if k % 1000 == 0:
                    fsat_check(acc, k // 1000, prec)
    elif kind.startswith('seams'):
        # around every whole minute in [a, b) minutes: a fine window at 0.001 steps and a coarse +-2 s window
        fine, step = (10, 100) if kind == 'seams-quick' else (200, 10)
        for mnt in range(a, b):
            base = mnt * 60000
            ks = set(range(base - fine, base + fine + 1)) | set(range(base - 2000, base + 2001, step))
            for k in sorted(ks):
                if k < 0:
                    continue
                x = k / 1000.0
                for prec in range(4):
                    fsat_check(acc, x, prec)
                    if k % 1000 == 0:
                        fsat_check(acc, k // 1000, prec)          # whole seconds as int
    if not acc.samples:
        acc.samples.append(dict(seconds=a / 1000.0 + 59.9995, prec=3, text=U().format_seconds_as_time(a / 1000.0 + 59.9995, 3)))
    return acc.pack()


def residue_floats():
    base = [0.1, 0.2, 0.3, 0.7, 1.1, 2.2, 59.9, 59.99, 59.999, 60.1, 64.35, 3599.9, 3599.99, 3600.3, 0.001, 0.005, 12.345, 100.001]
    out = set()
    for a in base:
        for b in base:
            out.add(a + b)
            out.add(a * b)
            out.add(abs(a - b))
    for n in (0, 1, 59, 60, 65, 119, 3599, 3600, 86399):
        for k in range(4, 17):
            out.add(n + 10.0 ** -k)
            out.add(n + 3 * 10.0 ** -k)
            if n:
                out.add(n - 10.0 ** -k)
    out.update([1e-5, 1e-7, 5e-324, 0.0, 1e-300, 65.00000000000001, 0.30000000000000004, 59.99999999999999])
    return sorted(x for x in out if x >= 0)


# ---- (iii)
def ph_check(acc, t, want=None):
    acc.n += 1
    case = dict(text=t)
    try:
        r = U().parse_hms(t)
    except ValueError:
        if want is not None:
            acc.bad('parse:well-formed-text-refused', case, 'parse_hms(%r) raised ValueError, value is %s' % (t, want))
        return
    except Exception as e:
        acc.bad('parse:raises-%s' % type(e).__name__, case, 'parse_hms(%r) raised %r (only ValueError is allowed)' % (t, e))
        return
    if isinstance(r, bool) or not isinstance(r, (int, float)):
        acc.bad('parse:result-not-a-number', case, 'parse_hms(%r) = %r' % (t, r))
        return
    if want is not None:
        if want.denominator == 1 and '.' not in t:
            if type(r) is not int or r != want:
                acc.bad('parse:integer-text-not-exact-int', case, 'parse_hms(%r) = %r, value is %s' % (t, r, want))
                return
        elif not math.isclose(r, float(want), rel_tol=1e-12, abs_tol=1e-9):
            acc.bad('parse:wrong-value', case, 'parse_hms(%r) = %r, value is %s' % (t, r, float(want)))
            return
        acc.nontrivial += 1


FIELDS_INT = ['0', '1', '7', '00', '05', '12', '59', '60', '99', '007', '123']
DECS = ['', '.0', '.5', '.05', '.99', '.999', '.', '.1234567', '.0000004', '.9999996', '.123456789012']
JUNK = ['', ' ', ':', ';', '1:', ':1', '1::2', '1:2:3:4', 'abc', '1a', '1e3', '-5', '+5', ' 5', '5 ', '1 :2', '1: 2', 'nan', 'inf', '-inf', 'infinity', '1_0',
        '٣', '٣:١٠', '1.2.3', '1,5', '1:2,5', '0x10', '1:0x10', '\t1', '1\n', '1;2:3', '1:2;3', '1.5:30', '--1', '1e400', '1e-400', '.', ':.',
        '\x00', ' ', '1:½', '１２']


def ph_work(chunk):
    firsts = chunk
    acc = Acc()
    for sep in ':;':
        for f1 in firsts:
            for nf in (1, 2, 3):
                rest_opts = [FIELDS_INT] * (nf - 1)
                for rest in itertools.product(*rest_opts):
                    ints = (f1,) + rest
                    for d in DECS:
                        if d == '.' and not ints[-1]:
                            continue
                        t = sep.join(ints) + d
                        if nf == 1 and sep == ';':
                            continue
                        v = Fraction(0)
                        for i, f in enumerate(ints):
                            v = v * 60 + Fraction(int(f))
                        if d not in ('', '.'):
                            v += Fraction(Decimal('0' + d))
                        ph_check(acc, t, v)
    if not acc.samples:
        acc.samples.append(dict(text='1:1:10.5', value=U().parse_hms('1:1:10.5')))
    return acc.pack()


def run(tier):
    common.bind_repo()
    rep = Report(PID, tier, 'exploration')
    # (i)
    digits = '059' if tier == 'quick' else '0159'
    ints = [''.join(t) for n in range(0, 5) for t in itertools.product(digits, repeat=n)]
    chunks = [(digits, None, list(range(0, 8)), ints[i::48]) for i in range(48)]
    merge(rep, pmap(rus_work, chunks), part='round_up_str_num: I.F over digits %s, |I|<=4, |F|<=7, prec 0..5' % digits)
    full = '0123456789'
    ints2 = [''.join(t) for n in range(0, 3) for t in itertools.product(full, repeat=n)]
    chunks = [(full, None, list(range(0, 4 if tier == 'quick' else 5)), ints2[i::48]) for i in range(48)]
    merge(rep, pmap(rus_work, chunks), part='round_up_str_num: all ten digits, |I|<=2, |F|<=%d' % (3 if tier == 'quick' else 4))
    # (ii)
    top = 600000 if tier == 'quick' else 7200000          # 10 min / 2 h on the 0.001 grid
    chunks = [('grid', a, b) for a, b in common.split_range(0, top + 1, 256)]
    sk = 'seams-quick' if tier == 'quick' else 'seams'
    chunks += [(sk, a, b) for a, b in common.split_range(0, 6001, 128)]       # every whole minute up to 100 h
    merge(rep, pmap(fsat_work, chunks), part='format_seconds_as_time: 0.001 grid to %d min; around every whole minute to 100 h (%s); prec 0..3' % (
        top // 60000, '+-0.01 s at 0.001 and +-2 s at 0.1' if tier == 'quick' else '+-0.2 s at 0.001 and +-2 s at 0.01'))
    acc = Acc()
    for x in residue_floats():
        for prec in range(4):
            fsat_check(acc, x, prec)
    for bad in (-1, 4, 5, 2.0, '2', None, 10):
        acc.n += 1
        try:
            r = U().format_seconds_as_time(12.5, bad)
            acc.bad('format:bad-precision-accepted', dict(prec=bad), 'returned %r' % (r,))
        except ValueError:
            pass
        except Exception as e:
            acc.bad('format:bad-precision-raises-%s' % type(e).__name__, dict(prec=bad), repr(e))
    merge(rep, [acc.pack()], part='format_seconds_as_time: floats with arithmetic residue; precision outside 0..3')
    # (iii)
    merge(rep, pmap(ph_work, [[f] for f in FIELDS_INT]), part='parse_hms: 1-3 fields over %d field spellings x %d decimal tails x both separators' % (len(FIELDS_INT), len(DECS)))
    acc = Acc()
    for t in JUNK:
        ph_check(acc, t)
    # "any text whatsoever": every string of up to four characters over a small alphabet of digits, separators, signs, blanks and letters
    JA = ['0', '1', '9', ':', ';', '.', ',', '-', '+', ' ', 'e', 'x', '\t', '%', 's', 'd', '{', '}', '\\'] if tier == 'thorough' else ['0', '7', ':', ';', '.', ',', '-', '+', ' ', 'e', '%', 's', '{', '\\']
    for n in range(1, 5):
        for t in itertools.product(JA, repeat=n):
            ph_check(acc, ''.join(t))
    # "any text whatsoever" includes very long texts: thousands of fields, digits, blanks or signs (recursion depth, digit limits, quadratic scans)
    for n in (5, 10, 100, 1000, 3000, 20000):
        for t in ('0:' * n + '7', '0;' * n + '7.5', ':' * n, 'x;' * n, '1:' * n + '1', ' ' * n + '5', '5' + ' ' * n, '1' * n, '1.' + '0' * n + '1', '-' * n, '0' * n + ':0',
                  '1:2;' * n, '%s' * n, '1' + '0' * n + ':00', '1:' + '9' * n, '.' * n, '1e' + '9' * n, '(' * n):
            ph_check(acc, t)
    # refused texts that begin with a long run of digits (possibly grouped by blanks, dots or commas): whatever inspects a refused text must come back;
    # a call that has not returned after five seconds is reported (an error message built with a backtracking pattern doubles its time with every digit)
    import signal

    class _Slow(BaseException):
        pass

    def _alarm(sig, frm):
        raise _Slow()
    old = signal.signal(signal.SIGALRM, _alarm)
    try:
        for n in (12, 20, 26, 32, 40, 60, 400):
            for t in ('4' * n + 'x', '3' * n + ':x', '12 ' * (n // 3) + 'sec', '1.' * (n // 2) + 'x', '9' * n + ',5,', '7' * n + ' .', ':' + '5' * n + 'x', '0' * n + '-'):
                signal.alarm(5)
                try:
                    ph_check(acc, t)
                except _Slow:
                    acc.bad('parse:does-not-return-within-5s', dict(text=t), 'parse_hms(%r) had not returned after five seconds' % (t[:80],))
                    break
                finally:
                    signal.alarm(0)
    finally:
        signal.signal(signal.SIGALRM, old)
    for t in (b'12', 12.5, None, [], ('1',), True):           # not text at all: a number may be passed through, anything else -> ValueError (or TypeError for non-text)
        acc.n += 1
        try:
            U().parse_hms(t)
        except (ValueError, TypeError):
            pass
        except Exception as e:
            acc.bad('parse:raises-%s' % type(e).__name__, dict(text=repr(t)), 'parse_hms(%r) raised %r' % (t, e))
    for t in ['1:2;3', '1;2:3']:
        pass
    for v in (0, 5, 3670.1, 1e300):
        acc.n += 1
        if U().parse_hms(v) != v:
            acc.bad('parse:number-not-returned-as-is', dict(value=v), repr(U().parse_hms(v)))
    merge(rep, [acc.pack()], part='parse_hms: junk strings, numbers')
    c = rep.coverage
    c['rule'] = ('exhaustive products of digit strings x precisions; every 0.001 s duration of the stated ranges x precision; every h:m:s string over the field set; '
                 'oracle = Decimal/Fraction arithmetic; non-trivial = cases where rounding/parsing actually changes or combines digits')
    c['exhaustive'] = True
    rep.assumptions += ['noise aside = the duration truncated to five decimals of its exact binary value',
                        'value equality for round_up_str_num (leading zeros of the input integer part may be kept)',
                        'parse_hms of text with a fraction is compared within 1e-12 relative (sum of doubles), integer-only text exactly and as int']
    UP = 'athlib.utils:'
    oc = [(UP + 'round_up_str_num', a) for a in (('9.995', 2), ('0.001', 2), ('12', 0), ('.5', 0), ('99.99999', 3), ('1.23456789', 5), ('abc', 2))]
    oc += [(UP + 'format_seconds_as_time', a) for a in ((59.999, 2), (60, 0), (3599.5, 0), (7199.5, 0), (0.001, 3), (65.00000000000001, 2), (359999.5, 0), (12.3, 7))]
    oc += [(UP + 'parse_hms', (t,)) for t in ('1:02:03.5', '59.99', '2:03', '1:60', '', ':', '1,5', 12, 12.5, '-1:00', '100:00:00')]
    oc += [(UP + 'is_hand_timing', (t,)) for t in ('12.3', '12.34', 12.3, '1:02.3')]
    orderpass.part(rep, oc, 'formatting call-order pass')
    concpass.part(rep, PID, tier)
    return rep.finish()


def replay(rec):
    if concpass.is_conc(rec):
        return concpass.replay(rec)
    c = rec['case']
    print(rec['sig'], '-', rec['msg'])
    try:
        if 's' in c:
            print('round_up_str_num ->', repr(U().round_up_str_num(c['s'], c['prec'])), 'ceiling', rus_oracle(c['s'], c['prec']))
        elif 'seconds' in c:
            print('format_seconds_as_time ->', repr(U().format_seconds_as_time(c['seconds'], c['prec'])))
        elif 'text' in c:
            print('parse_hms ->', repr(U().parse_hms(c['text'])))
    except Exception as e:
        print('raised', repr(e))
    return 1
