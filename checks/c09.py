"""C09 - performance-needed is the exact inverse of the combined-events score.

Enumerates every (gender, event) row x every integer target -10..1500 and checks the two-sided
inverse condition on the real functions (no external oracle needed).  DESIGN.md section 3/C09.
"""
import math
from checks import crossapi
from vlib import common
from vlib import orderpass
from vlib.common import Acc, Report, merge, pmap

PID = 'C09'
TARGETS = (-10, 1500)
UNKNOWN = [('?', '100'), ('M', 'XX'), ('X', 'HJ'), ('NA', 'NA'), ('M', ''), ('', ''), ('F', '110H'), ('M', '1MILE')]
ALIASES = [('F', '80H'), ('M', '80H'), ('M', '100H')]


def rows():
    m = common.mod('athlib.athlon_score')
    return [(o['gender'], o['event_code']) for o in m._scoring_table]


def kind(event):
    m = common.mod('athlib.athlon_score')
    return 'field' if (m.PAT_JUMPS.match(event) or m.PAT_THROWS.match(event)) else 'timed'


def next_worse(p, knd):
    if knd == 'timed':
        return (math.floor(p * 100 + 1e-6) + 1) / 100.0
    return (math.ceil(p * 100 - 1e-6) - 1) / 100.0


def check_target(g, e, s, acc):
    athlib = common.bind_repo()
    perf, score = athlib.athlon_performance_needed, athlib.athlon_score
    knd = kind(e)
    case = dict(gender=g, event=e, target=s)
    try:
        p = perf(g, e, s)
    except Exception as ex:
        acc.bad('performance-raises:%s' % type(ex).__name__, case, 'performance() raised %r' % ex)
        return
    if p is None or isinstance(p, bool) or not isinstance(p, (int, float)):
        acc.bad('performance-not-a-number', case, 'performance() returned %r for a scored row' % (p,))
        return
    try:
        got = score(g, e, p)
    except Exception as ex:
        acc.bad('score-raises:%s' % type(ex).__name__, dict(case, perf=p), 'score() raised %r' % ex)
        return
    if s <= 0:
        p0 = perf(g, e, 0)
        if p != p0:
            acc.bad('negative-target-differs-from-zero', case, 'performance(%s)=%r but performance(0)=%r' % (s, p, p0))
        if got is None or got < 0:
            acc.bad('zero-target-mark-scores-negative', dict(case, perf=p), 'scores %r' % (got,))
        return
    acc.nontrivial += 1
    if got is None or got < s:
        acc.bad('needed-mark-scores-less-than-target', dict(case, perf=p),
                'performance_needed=%r but score(that)=%r < %d' % (p, got, s))
    w = next_worse(p, knd)
    if w < 0:
        return
    gotw = score(g, e, w)
    if gotw is None or gotw >= s:
        acc.bad('next-worse-mark-also-reaches-target', dict(case, perf=p, worse=w),
                'performance_needed=%r but the next-worse grid mark %r scores %r >= %d' % (p, w, gotw, s))


def spellings(g, e):
    out = [(g.lower(), e), (g, e.lower()), (g.lower(), e.lower())]
    return [x for x in dict.fromkeys(out) if x != (g, e)]


def _quiet(fn, *a):
    try:
        return fn(*a)
    except Exception as ex:
        return 'raised %s' % type(ex).__name__


def work(chunk):
    acc = Acc()
    perf = common.bind_repo().athlon_performance_needed
    for (g, e) in chunk:
        for s in range(TARGETS[0], TARGETS[1] + 1):
            acc.n += 1
            check_target(g, e, s, acc)
            # the mark is on the 0.01 grid; other spellings of the row and a float-typed target give the same mark
            p = _quiet(perf, g, e, s)
            if isinstance(p, (int, float)) and abs(p * 100 - round(p * 100)) > 1e-6:
                acc.bad('needed-mark-not-on-the-grid', dict(gender=g, event=e, target=s), 'performance_needed = %r' % (p,))
            for (g2, e2) in spellings(g, e):
                acc.n += 1
                p2 = _quiet(perf, g2, e2, s)
                if p2 != p:
                    acc.bad('spelling-changes-the-answer', dict(gender=g2, event=e2, target=s), '%r for (%r,%r), %r for (%r,%r)' % (p2, g2, e2, p, g, e))
            acc.n += 1
            p3 = _quiet(perf, g, e, float(s))
            if p3 != p:
                acc.bad('float-target-changes-the-answer', dict(gender=g, event=e, target=float(s)), '%r for %r, %r for %r' % (p3, float(s), p, s))
        acc.samples.append(dict(row=[g, e], target=700, needed=common.bind_repo().athlon_performance_needed(g, e, 700)))
    return acc.pack()


def run(tier):
    athlib = common.bind_repo()
    rep = Report(PID, tier, 'exploration')
    R = rows()
    if len(R) != 48:
        rep.assumptions.append('scoring table has %d rows (48 at the pinned commit)' % len(R))
    packs = pmap(work, [R[i::16] for i in range(16)])
    merge(rep, packs, part='rows x targets')
    # unknown pairs: no answer, no error; alias rows: None or a consistent answer
    acc = Acc()
    for (g, e) in UNKNOWN + ALIASES:
        for s in (-5, 0, 1, 500, 1500):
            acc.n += 1
            case = dict(gender=g, event=e, target=s)
            try:
                p = athlib.athlon_performance_needed(g, e, s)
            except Exception as ex:
                acc.bad('unknown-pair-raises:%s' % type(ex).__name__, case, 'raised %r instead of returning None' % ex)
                continue
            if (g, e) in UNKNOWN and p is not None:
                acc.bad('unknown-pair-gets-answer', case, 'returned %r' % (p,))
            elif p is not None:
                check_target(g, e, s, acc)
    merge(rep, [acc.pack()], part='unknown and alias pairs')
    rep.coverage['rule'] = ('every row of the scoring table x every integer target %d..%d; non-trivial = targets >= 1 '
                            '(two-sided inverse condition evaluated); both sides are the real functions' % TARGETS)
    rep.coverage['exhaustive'] = True
    rep.assumptions += ['next-worse grid mark = floor/ceil of 100*p with 1e-6 slack, +-1, divided by 100 once',
                        'alias rows (veterans hurdles) may answer None; if they answer they must satisfy the inverse condition']
    if rep.coverage['distinct_nontrivial'] < 48 * 1000:
        raise common.HarnessError('vacuous: only %d non-trivial targets' % rep.coverage['distinct_nontrivial'])
    P, S = 'athlib.athlon_performance_needed', 'athlib.athlon_score'
    oc = [(P, a) for a in (('M', '100', 900), ('F', 'HJ', 1000), ('m', 'lj', 800), ('M', '800', 700), ('F', 'JT', 1), ('M', '1500', 0), ('M', 'PV', -3), ('X', 'HJ', 500), ('M', 'XX', 500))]
    oc += [(P, a) for a in (('F', '10000', 915.5), ('F', '10000', 915), ('M', '5000', 700.4), ('M', '5000', 700), ('F', 'JT', 700.9), ('F', 'JT', 700), ('M', '100', 900.5),
                            ('M', '1500', 0.5), ('M', '1500', 1), ('F', 'HJ', 999.99))]
    # marks between grid points (photo-finish thousandths, laser centimetres and millimetres) next to their grid neighbours
    oc += [(S, a) for a in (('M', '100', 10.583), ('M', '100', 10.58), ('M', '100', 10.59), ('F', 'LJ', 6.957), ('F', 'LJ', 6.96), ('F', 'LJ', 6.95), ('F', 'HJ', 1.826), ('F', 'HJ', 1.83),
                            ('M', '110H', 14.004), ('M', '110H', 14.0))]
    oc += [(P, a) for a in (('M', '100', 955), ('F', 'LJ', 1157), ('F', 'HJ', 1010), ('M', '110H', 974))]
    oc += [(S, a) for a in (('M', '100', 10.5), ('F', 'HJ', 1.8), ('M', '800', 120.0), ('M', '800', 120.0, None, True), ('M', '100', 12.5, 52), ('m', 'lj', 6.95), ('M', '80H', 13.5, 60))]
    orderpass.part(rep, oc, 'performance-needed / score call-order pass')
    # the inverse pair on a thinned grid with the decimal context of the calling thread changed by the host application
    amb = []
    a_ = common.bind_repo()
    amb_rows = sorted({(r["gender"], r["event_code"]) for r in common.mod("athlib.athlon_score")._scoring_table})
    for g, e in amb_rows:
        for t in range(1, 1400, 7):
            amb.append(('athlib.athlon_performance_needed', (g, e, t)))
            try:
                p_ = a_.athlon_performance_needed(g, e, t)
            except Exception:
                p_ = None
            if isinstance(p_, (int, float)):
                amb.append(('athlib.athlon_score', (g, e, p_)))
    crossapi.ambient_grid(rep, amb, 'ambient decimal context')
    crossapi.part(rep, PID, tier)
    return rep.finish()


def replay(rec):
    athlib = common.bind_repo()
    c = rec['case']
    p = athlib.athlon_performance_needed(c['gender'], c['event'], c['target'])
    print('performance_needed(%r,%r,%r) = %r' % (c['gender'], c['event'], c['target'], p))
    if p is not None:
        print('score of it =', athlib.athlon_score(c['gender'], c['event'], p))
        w = next_worse(p, kind(c['event']))
        print('next worse %r scores %r' % (w, athlib.athlon_score(c['gender'], c['event'], w)))
    acc = Acc()
    check_target(c['gender'], c['event'], c['target'], acc)
    print('violations on replay:', [v['sig'] for v in acc.viol])
    return 1 if acc.viol else 0
