"""C17 - implement weights and weight-specific codes stay inside the vocabulary.   DESIGN.md 3/C17.
Throws x gender x every age-group label (those the library produces and arbitrary others); pass-through of every other code of the
canonical set; masters monotonicity over consecutive bands; every key of every bundled table through the event-code checker."""
import re, json, os
from vlib import concpass
from checks import crossapi
from vlib import common, rxmc
from vlib import orderpass
from vlib.common import Report, Violation, HarnessError, Acc, pmap, merge

PID = 'C17'
THROWS = ['SP', 'DT', 'HT', 'JT', 'WT']
PRODUCED = ['U9', 'U11', 'U13', 'U15', 'U17', 'U20', 'SEN'] + ['V%02d' % a for a in range(35, 135, 5)]
OTHER = ['U14', 'U16', 'U18', 'U23', 'V5', 'V050', 'V', 'XYZ', '', 'sen', 'v40', 'U', 'V35 ', 'W40', 'Vets', 'MASTERS', 'V999']


def run(tier):
    athlib = common.bind_repo()
    rep = Report(PID, tier, 'exploration')
    U = common.mod('athlib.utils')
    P = rxmc.load_patterns()
    giw, gsec = athlib.get_implement_weight, athlib.get_specific_event_code
    acc = Acc()
    # ---- specific codes (also under a lowered ambient decimal precision: a host application that prints three significant figures has set it)
    import decimal
    import logging, contextlib

    @contextlib.contextmanager
    def debug_logging(on):
        # the host application has switched DEBUG logging on for everything (a guarded debug line is then executed)
        root = logging.getLogger()
        old, oldh = root.level, list(root.handlers)
        if on:
            root.setLevel(logging.DEBUG)
            root.addHandler(logging.NullHandler())
            for name in list(logging.root.manager.loggerDict):
                if name.startswith('athlib'):
                    logging.getLogger(name).setLevel(logging.NOTSET)
        try:
            yield
        finally:
            root.setLevel(old)
            root.handlers[:] = oldh
    for ctx_prec in (None, 3, 2, 'debug-logging'):
     with decimal.localcontext() as _ctx, debug_logging(ctx_prec == 'debug-logging'):
      if isinstance(ctx_prec, int) and ctx_prec:
          _ctx.prec = ctx_prec
      for ev in THROWS:
          for g in ('M', 'F', 'm', 'f', 'Male', 'Female', 'MALE', 'female', ' F', 'M ', 'Men', 'Women', 'W', 'X', ''):
              for label in (PRODUCED + OTHER if g in ('M', 'F') else PRODUCED[::2] + OTHER[:4]):
                  acc.n += 1
                  case = dict(event=ev, gender=g, age_group=label, **({'decimal_context_prec': ctx_prec} if isinstance(ctx_prec, int) and ctx_prec else ({'ambient': ctx_prec} if ctx_prec else {})))
                  produced = label in PRODUCED
                  try:
                      w = giw(ev, g, label)
                  except Exception as e:
                      acc.bad('weight-raises:%s' % type(e).__name__, case, repr(e))
                      continue
                  try:
                      r = gsec(ev, g, label)
                  except Exception as e:
                      acc.bad('specific-code-raises:%s:%s' % (type(e).__name__, 'produced-label' if produced else 'other-label'), case,
                              'get_specific_event_code raised %r (implement weight %r)' % (e, w))
                      continue
                  if not isinstance(r, str) or not P['PAT_THROWS'].match(r):
                      acc.bad('specific-code-not-a-throws-code', case, 'returned %r' % (r,))
                      continue
                  try:
                      n = U.normalize_event_code(r)
                  except Exception as e:
                      n = 'raised %r' % e
                  if n != r:
                      acc.bad('specific-code-not-normalised', case, 'returned %r, normal form %r' % (r, n))
                      continue
                  rest = r[len(ev):]
                  if not r.startswith(ev):
                      acc.bad('specific-code-for-another-event', case, 'returned %r' % (r,))
                      continue
                  if w == '':
                      if rest != '':
                          acc.bad('specific-code-has-weight-the-table-does-not-report', case, 'code %r but implement weight is unknown' % (r,))
                      continue
                  wk = float(w)
                  kg = wk if wk < 99 else wk / 1000.0      # the table reports kg, or grams for javelins
                  m = re.match(r'^(\d+(?:\.\d+)?)(K?)$', rest)
                  if not m:
                      acc.bad('specific-code-weight-unreadable', case, 'code %r' % (r,))
                      continue
                  ckg = float(m.group(1)) if m.group(2) == 'K' else float(m.group(1)) / 1000.0
                  if abs(ckg - kg) > 1e-9:
                      acc.bad('specific-code-weight-differs-from-table', case, 'code %r = %g kg, table reports %r' % (r, ckg, w))
                  else:
                      acc.nontrivial += 1
    # ---- arguments that are str instances of another class (a StrEnum member as applications use for choices, a plain str subclass): equal to the plain
    #      text in every respect incl. str() and format(), so the answer must be the one the plain text gets.  (Members of a str-MIXIN Enum are left out:
    #      their str() is 'Event.SP', and the pinned tree itself answers get_specific_event_code(Event.SP, ...) with 'Event.SP7.26K' - no promise there.)
    import enum
    AgeGroup = enum.StrEnum('AgeGroup', {l: l for l in PRODUCED})
    Event = enum.StrEnum('Event', {e: e for e in THROWS})
    Gender = enum.StrEnum('Gender', {'M': 'M', 'F': 'F'})

    class Txt(str):
        pass
    for ev in THROWS:
        for g in ('M', 'F'):
            for label in PRODUCED:
                want = None
                for how, (e2, g2, l2) in (('plain', (ev, g, label)), ('enum-label', (ev, g, AgeGroup[label])), ('subclass-label', (ev, g, Txt(label))),
                                          ('enum-event', (Event[ev], g, label)), ('enum-gender', (ev, Gender[g], label)), ('subclass-all', (Txt(ev), Txt(g), Txt(label)))):
                    acc.n += 1
                    try:
                        got = (giw(e2, g2, l2), gsec(e2, g2, l2))
                        got = tuple(str.__str__(x) if isinstance(x, str) else x for x in got)
                    except Exception as e:
                        got = 'raised %s' % type(e).__name__
                    if how == 'plain':
                        want = got
                    elif got != want:
                        acc.bad('answer-depends-on-the-class-of-a-text-argument:%s' % how, dict(event=ev, gender=g, age_group=label, how=how),
                                'plain text arguments give %r, %s gives %r' % (want, how, got))
                    else:
                        acc.nontrivial += 1
    # ---- masters never get heavier
    for ev in THROWS:
      for g in ('M', 'F'):
        # the library's own spelling 'V35', and other spellings of a masters band a caller may use: whatever such a family of labels is
        # answered with, it must not get heavier with the band either (an unknown spelling is answered uniformly, which is fine)
        for fam in ('V%02d', 'M%02d' if g == 'M' else 'W%02d', 'v%02d', 'V%d+', 'M%d' if g == 'M' else 'F%d'):
            prev = None
            for a in range(35, 135, 5):
                label = fam % a
                acc.n += 1
                try:
                    w = giw(ev, g, label)
                    wk = float(w)
                except Exception as e:
                    if fam == 'V%02d':
                        acc.bad('masters-weight-undefined', dict(event=ev, gender=g, age_group=label), 'get_implement_weight returned/raised %r' % (e,))
                    prev = None                 # another spelling need not be understood
                    continue
                if prev is not None and wk > prev[1]:
                    acc.bad('masters-implement-gets-heavier', dict(event=ev, gender=g, age_group=label), '%s %s kg after %s %s kg' % (label, w, prev[0], prev[1]))
                prev = (label, wk)
    # ---- pass-through of non-throw codes
    A = rxmc.Alphabet(P)
    L, _ = rxmc.enumerate_language(A, P['PAT_EVENT_CODE'], pairs=(tier == 'thorough'))
    for c in L:
        if c in THROWS:
            continue
        for g, label in (('M', 'SEN'), ('F', 'V50'), ('M', 'U13')):
            acc.n += 1
            try:
                r = gsec(c, g, label)
            except Exception as e:
                acc.bad('pass-through-raises:%s' % type(e).__name__, dict(event=c, gender=g, age_group=label), repr(e))
                continue
            if r != c:
                acc.bad('non-throw-code-changed', dict(event=c, gender=g, age_group=label), 'returned %r' % (r,))
    # ---- table keys
    chk = U.check_event_code
    keys = []
    keys += [('athlon', o['event_code']) for o in common.mod('athlib.athlon_score')._scoring_table]
    keys += [('hungarian', f[2]) for f in common.mod('athlib.hungarian_score').FACTORS]
    for g, tab in common.mod('athlib.tyrving_score')._tyrvingTables.items():
        keys += [('tyrving', k) for k in tab]
    for ct, tab in common.mod('athlib.qkids_score')._qkidsTables.items():
        keys += [('qkids', k) for k in tab]
    keys += [('sportshall', k) for k in common.mod('athlib.sportshall_score').RAWDATA[0][1:]]
    for k in common.mod('athlib.bulgarian_score').scores:
        keys.append(('bulgarian', re.match(r'^U\d+[MFX](.+)$', k).group(1)))
    d = os.path.join(common.REPO, 'athlib', 'wma')
    for fn in ('wma-data-2015.json', 'wma-data-2023.json', 'wma-athlons-data.json'):
        data = json.load(open(os.path.join(d, fn)))
        for g in 'mf':
            keys += [(fn, r[0]) for r in data[g]]
    keys = list(dict.fromkeys(keys))
    for src, k in keys:
        acc.n += 1
        if chk(k) is None:
            acc.bad('table-key-rejected-by-checker:%s' % src, dict(table=src, key=k), '%r is a key of the %s table but check_event_code rejects it' % (k, src))
        else:
            acc.nontrivial += 1
    acc.samples.append(dict(event='SP', gender='M', age_group='V60', weight=giw('SP', 'M', 'V60'), code=gsec('SP', 'M', 'V60')))
    merge(rep, [acc.pack()], part='specific codes, masters monotonicity, pass-through (%d codes), table keys (%d)' % (len(L), len(keys)))
    c = rep.coverage
    c['table_keys'] = len(keys)
    c['rule'] = ('{SP,DT,HT,JT,WT} x {M,F} x labels the library produces (U9..U20, SEN, V35..V130) and %d other labels; consecutive masters bands; every other code of the '
                 'generated language passes through; every key of every bundled table; non-trivial = specific codes whose weight agrees with the table + accepted keys' % len(OTHER))
    c['exhaustive'] = True
    rep.assumptions += ['a label for which the implement table reports no weight must give the generic code back (no exception)',
                        'weights below 99 are kilograms, others grams (the convention of get_specific_event_code)']
    I = 'athlib.implements:get_specific_event_code'
    oc = [(I, (e, g, a)) for e in ('SP', 'sp', 'JT', 'HT', 'WT', 'DT', '4x100', '100', 'SPB') for g, a in (('M', 'SEN'), ('F', 'U17'), ('M', 'V60'), ('F', 'V100'), ('M', 'U13'))]
    orderpass.part(rep, oc, 'implement-code call-order pass')
    crossapi.part(rep, PID, tier)
    concpass.part(rep, PID, tier)
    return rep.finish()


def replay(rec):
    if concpass.is_conc(rec):
        return concpass.replay(rec)
    athlib = common.bind_repo()
    c = rec['case']
    print(rec['sig'], '-', rec['msg'])
    if 'event' in c:
        import decimal
        if c.get('ambient') == 'debug-logging':
            import logging
            logging.basicConfig(level=logging.DEBUG, handlers=[logging.NullHandler()])
            print('logging: DEBUG enabled')
        if c.get('decimal_context_prec'):
            decimal.getcontext().prec = c['decimal_context_prec']
            print('decimal.getcontext().prec =', c['decimal_context_prec'])
        try:
            print('weight', repr(athlib.get_implement_weight(c['event'], c['gender'], c['age_group'])))
            print('code  ', repr(athlib.get_specific_event_code(c['event'], c['gender'], c['age_group'])))
        except Exception as e:
            print('raised', repr(e))
    return 1
