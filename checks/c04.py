"""C04 - event-code families: unions are exact, measurement kinds never overlap.   DESIGN.md 2.2, 3/C04.

Decided for all Unicode strings of any length: the languages are regular, two code points in the same class of
the partition induced by the patterns' atoms are indistinguishable to every pattern, so reachability on the
product DFA over classes is complete.  The automata are bound to the real compiled patterns by replaying access
strings, their one-symbol extensions and all short strings through `re`."""
import itertools, time, os
from vlib import common, rxmc
from vlib.common import Report, Violation, HarnessError, Acc, pmap, merge

PID = 'C04'

# composition table, from the statement (not read from the code)
UNIONS = {
    'PAT_EVENT_CODE': ['PAT_TRACK', 'PAT_HURDLES', 'PAT_ROAD', 'PAT_RELAYS', 'PAT_JUMPS', 'PAT_THROWS', 'PAT_MULTI',
                       'PAT_RACES_FOR_DISTANCE', 'PAT_HIGHSCORING_EVENT', 'PAT_LOWSCORING_EVENT'],
    'PAT_RUN': ['PAT_TRACK', 'PAT_ROAD', 'PAT_RELAYS'],
    'PAT_FIELD': ['PAT_THROWS', 'PAT_JUMPS'],
    'PAT_JUMPS': ['PAT_VERTICAL_JUMPS', 'PAT_HORIZONTAL_JUMPS'],
    'PAT_LENGTH_EVENT': ['PAT_HORIZONTAL_JUMPS', 'PAT_THROWS'],
    'PAT_TIMED_EVENT': ['PAT_TRACK', 'PAT_HURDLES', 'PAT_ROAD', 'PAT_RELAYS'],
    'PAT_FINISH_RECORD': ['PAT_PERF', 'PAT_FINISHED', 'PAT_NOT_FINISHED'],
}
KINDS = ['PAT_TIMED_EVENT', 'PAT_FIELD', 'PAT_MULTI', 'PAT_RACES_FOR_DISTANCE']

_G = {}


def setup():
    if 'A' not in _G:
        P = rxmc.load_patterns()
        A = rxmc.Alphabet(P)
        _G.update(P=P, A=A, D={n: rxmc.DFA(A, p, n) for n, p in P.items()})
    return _G['P'], _G['A'], _G['D']


def real(P, name, s):
    return P[name].match(s) is not None


def ext_chars(A):
    """every member of the small classes, listed members of the large ones"""
    out = []
    for ci, c in enumerate(A.classes):
        for m in c['members']:
            out.append((ci, chr(m)))
    return out


def bind_words(names, words):
    """compare automaton and real pattern on each word for each named pattern; returns (n, mismatches)"""
    P, A, D = setup()
    bad = []
    n = 0
    for w in words:
        for nm in names:
            n += 1
            if D[nm].accepts(w) != real(P, nm, w):
                bad.append((nm, w))
    return n, bad


def _short_work(chunk):
    P, A, D = setup()
    firsts, maxlen = chunk
    reps = [A.rep(ci) for ci in range(len(A.classes))]
    names = sorted(P)
    n = 0
    bad = []
    for f in firsts:
        for L in range(0, maxlen):
            for tail in itertools.product(reps, repeat=L):
                w = f + ''.join(tail)
                for nm in names:
                    n += 1
                    if D[nm].accepts(w) != (P[nm].match(w) is not None):
                        if len(bad) < 10:
                            bad.append((nm, w))
    return n, bad


def run_fallback(tier, rep, reason):
    """The patterns of this tree use a construct the automata do not model.  Verdict by bounded enumeration instead: candidates are generated from the
    syntax trees of all patterns involved with the unmodelled constructs over-approximated (both arms of a conditional, look-arounds dropped), plus
    their one-character deletions, doublings and replacements; every candidate is put to the REAL compiled patterns, which are the only judge."""
    rxmc.LENIENT = True
    try:
        P = rxmc.load_patterns()
        A = rxmc.Alphabet(P)
        names = sorted(set(UNIONS) | set(x for v in UNIONS.values() for x in v) | set(KINDS))
        cand = {}
        for n in names:
            for w in rxmc.enumerate_language(A, P[n], pairs=True)[0]:
                cand[w] = 1
        reps = [A.rep(ci) for ci in range(len(A.classes))]
        base = list(cand)
        for w in base:
            if len(w) > 12:
                continue
            for i in range(len(w)):
                cand[w[:i] + w[i + 1:]] = 1
                cand[w[:i] + w[i] + w[i:]] = 1
            if tier == 'thorough' or len(w) <= 6:
                for i in range(len(w)):
                    for r in reps:
                        cand[w[:i] + r + w[i + 1:]] = 1
            for r in reps:
                cand[w + r] = 1
    finally:
        rxmc.LENIENT = False
    C = list(cand)
    ncmp = 0
    for comp, parts in UNIONS.items():
        nbad = 0
        for w in C:
            ncmp += 1 + len(parts)
            a0 = real(P, comp, w)
            acc = [p for p in parts if real(P, p, w)]
            if a0 != bool(acc):
                nbad += 1
                if nbad <= 3:
                    which = 'composite-accepts-string-no-part-accepts' if a0 else 'part-accepts-string-composite-rejects'
                    rep.add_violation(Violation('union:%s:%s' % (comp, which), dict(composite=comp, string=w),
                                                '%s %s %r; parts accepting: %r' % (comp, 'accepts' if a0 else 'rejects', w, acc)))
        rep.part('union %s (bounded, real matcher)' % comp, candidates=len(C), mismatching_candidates=nbad)
    for x, y in itertools.combinations(KINDS, 2):
        nbad = 0
        for w in C:
            ncmp += 2
            if real(P, x, w) and real(P, y, w):
                nbad += 1
                if nbad <= 3:
                    rep.add_violation(Violation('overlap:%s&%s' % (x, y), dict(string=w), '%r is accepted by both %s and %s' % (w, x, y)))
        rep.part('disjoint %s x %s (bounded, real matcher)' % (x, y), candidates=len(C), jointly_accepted=nbad)
    c = rep.coverage
    c['states'] = len(C)
    c['transitions'] = ncmp
    c['traces_validated_against_impl'] = ncmp
    c['evaluations'] = ncmp
    c['distinct_nontrivial'] = len(C)
    c['rule'] = ('FALLBACK: %s. Candidate strings generated from the syntax trees of all patterns (unmodelled constructs over-approximated) and their one-character '
                 'deletions, doublings, replacements and extensions; each candidate decided by the real compiled patterns' % reason)
    c['exhaustive'] = False
    c.setdefault('caps_hit', []).append('automata not applicable on this tree (%s): bounded candidate enumeration, not all strings' % reason)
    rep.sample(dict(fallback=reason, candidates=len(C), examples=C[:8]))
    return rep.finish()


def run(tier):
    common.bind_repo()
    rep = Report(PID, tier, 'model_checking')
    try:
        if os.environ.get('VERIF_C04_FORCE_FALLBACK'):
            raise HarnessError('unsupported: fallback forced by VERIF_C04_FORCE_FALLBACK (self-test of the fallback on a tree the automata can handle)')
        P, A, D = setup()
    except HarnessError as e:
        if 'unsupported' not in str(e) and 'not supported' not in str(e):
            raise
        _G.clear()
        return run_fallback(tier, rep, str(e))
    missing = [n for n in set(UNIONS) | set(x for v in UNIONS.values() for x in v) if n not in P]
    if missing:
        raise HarnessError('patterns missing from athlib.codes: %r' % missing)
    tot_states = tot_trans = 0
    replayed = 0
    exts = ext_chars(A)
    athlon = common.mod('athlib.athlon_score')

    def witness_ok(names, w, expect):
        """confirm a symbolic witness against the real patterns before reporting"""
        return all(real(P, n, w) == e for n, e in zip(names, expect))

    # ---- unions
    for comp, parts in UNIONS.items():
        names = [comp] + parts
        dfas = [D[n] for n in names]
        bad = []
        words = []

        def on_state(st, acc, dfas=dfas, bad=bad, words=words):
            a = [d.accepting(s) for d, s in zip(dfas, st)]
            words.append(acc)
            if a[0] != any(a[1:]):
                bad.append((acc, a))
        ns, nt, _ = rxmc.explore_product(dfas, A, on_state)
        tot_states += ns
        tot_trans += nt
        # binding: access strings + one-symbol extensions through the real patterns
        W = []
        for acc in words:
            w = rxmc.word(A, acc)
            W.append(w)
            for ci, ch in exts:
                W.append(w + ch)
        n, mism = bind_words(names, W)
        replayed += n
        if mism:
            raise HarnessError('automaton and re disagree for %s on %r' % mism[0])
        for acc, a in bad[:3]:
            w = rxmc.word(A, acc)
            if not witness_ok(names, w, a):
                raise HarnessError('symbolic witness %r for %s not confirmed by re' % (w, comp))
            which = 'composite-accepts-string-no-part-accepts' if a[0] else 'part-accepts-string-composite-rejects'
            rep.add_violation(Violation('union:%s:%s' % (comp, which), dict(composite=comp, string=w),
                                        '%s %s %r; parts accepting: %r' % (comp, 'accepts' if a[0] else 'rejects', w,
                                                                           [p for p, x in zip(parts, a[1:]) if x])))
        rep.part('union %s' % comp, product_states=ns, transitions=nt, strings_replayed=len(W), mismatching_states=len(bad))
        if len(rep.coverage['samples']) < 4:
            rep.sample(dict(product=names, example_access_strings=[rxmc.word(A, a) for a in words[1:6]]))
    # ---- disjointness of measurement kinds
    for x, y in itertools.combinations(KINDS, 2):
        dfas = [D[x], D[y]]
        bad = []
        words = []

        def on_state2(st, acc, dfas=dfas, bad=bad, words=words):
            words.append(acc)
            if dfas[0].accepting(st[0]) and dfas[1].accepting(st[1]):
                bad.append(acc)
        ns, nt, _ = rxmc.explore_product(dfas, A, on_state2)
        tot_states += ns
        tot_trans += nt
        W = [rxmc.word(A, acc) for acc in words]
        n, mism = bind_words([x, y], W)
        replayed += n
        if mism:
            raise HarnessError('automaton and re disagree for %s on %r' % mism[0])
        for acc in bad[:3]:
            w = rxmc.word(A, acc)
            if not (real(P, x, w) and real(P, y, w)):
                raise HarnessError('symbolic overlap witness %r not confirmed by re' % w)
            rep.add_violation(Violation('overlap:%s&%s' % (x, y), dict(string=w), '%r is accepted by both %s and %s' % (w, x, y)))
        rep.part('disjoint %s x %s' % (x, y), product_states=ns, transitions=nt, jointly_accepting_states=len(bad))
    # ---- classifiers on the witness set: one unit per code
    fam = ['PAT_EVENT_CODE'] + KINDS
    dfas = [D[n] for n in fam]
    wit = []
    ns, nt, seen = rxmc.explore_product(dfas, A, lambda st, acc: wit.append((st, acc)))
    tot_states += ns
    tot_trans += nt
    nclass = 0
    for st, acc in wit:
        w = rxmc.word(A, acc)
        kinds = [k for k in KINDS if real(P, k, w)]
        if len(kinds) > 1:
            continue        # reported above
        if kinds and kinds[0] in ('PAT_TIMED_EVENT', 'PAT_FIELD'):
            nclass += 1
            try:
                u = athlon.unit_name(w)
            except Exception as e:
                u = 'raised %r' % e
            want = 'metres' if kinds[0] == 'PAT_FIELD' else 'seconds'
            if u != want:
                rep.add_violation(Violation('unit_name-disagrees-with-family', dict(string=w), 'unit_name(%r)=%r but the code is a %s' % (w, u, kinds[0])))
    rep.part('classifier witnesses', product_states=ns, classified=nclass)
    # ---- binding: all short strings over the class representatives, every exported pattern
    maxlen = 3 if tier == 'quick' else 4
    reps = [A.rep(ci) for ci in range(len(A.classes))]
    res = pmap(_short_work, [([r], maxlen) for r in reps] + [([''], 1)])
    nshort = sum(r[0] for r in res)
    for r in res:
        if r[1]:
            raise HarnessError('automaton and re disagree for %s on %r' % r[1][0])
    replayed += nshort
    rep.part('binding: all strings up to length %d over %d class representatives x %d patterns' % (maxlen, len(reps), len(P)), comparisons=nshort)
    c = rep.coverage
    c['states'] = tot_states
    c['transitions'] = tot_trans
    c['traces_validated_against_impl'] = replayed
    c['evaluations'] = replayed
    c['distinct_nontrivial'] = tot_states
    c['alphabet_classes'] = len(A.classes)
    c['rule'] = ('reachable states of product DFAs (composite x parts; kind x kind) over the partition of Unicode induced by the atoms of all exported '
                 'patterns; non-trivial = distinct reachable product states; every automaton verdict used is cross-checked against re on access strings, '
                 'extensions and all short strings')
    c['exhaustive'] = True
    rep.assumptions += ['CPython re implements regular-language semantics for these patterns (no backreferences, lookarounds or flags: checked)',
                        'the composition table is the one in the property statement',
                        'classification clause is read at the level of measurement kinds (timed / field / multi / fixed-duration)']
    if tot_states < 500:
        raise HarnessError('vacuous: %d product states' % tot_states)
    return rep.finish()


def replay(rec):
    P, A, D = setup()
    s = rec['case']['string']
    for n in sorted(P):
        if P[n].match(s):
            print('%-26s accepts %r' % (n, s))
    print(rec['sig'], '-', rec['msg'])
    return 1
