"""C11 - table-based junior scoring reproduces the published tables exactly.   DESIGN.md 3/C11.
Sweep of every (system, table, event, age) x the 0.01 grid x every documented input form against exact oracles
(checks/scoring_common.py), plus the table clauses: every table ordered, every key a valid normalised event code
that is reachable through the public function."""
from checks import crossapi
from vlib import common
from vlib import orderpass
from vlib.common import Report, Violation, HarnessError, Acc, pmap, merge
from checks import scoring_common as sc

PID = 'C11'
SYS = ['ty', 'qk', 'sh', 'bg']


def table_clauses():
    G = sc.setup()
    U = common.mod('athlib.utils')
    acc = Acc()

    def key_ok(system, key, ident, upper_identity=False):
        acc.n += 1
        case = dict(system=system, table=ident, key=key)
        if U.check_event_code(key) is None:
            acc.bad('C11:%s:table-key-not-a-valid-event-code' % system, case, '%r is a table key but check_event_code rejects it' % key)
            return
        try:
            n = U.normalize_event_code(key)
        except Exception as e:
            acc.bad('C11:%s:table-key-not-normalisable' % system, case, repr(e))
            return
        if (n.upper() if upper_identity else n) != (key.upper() if upper_identity else key):
            acc.bad('C11:%s:table-key-not-in-normal-form' % system, case, 'key %r normalises to %r: the row cannot be reached under its normal form' % (key, n))
        acc.nontrivial += 1

    # Tyrving: keys + per-table ordering (base performances improve with age; piecewise formula continuous and rising)
    for g, tab in G['ty']._tyrvingTables.items():
        for ev, (kind, args) in tab.items():
            key_ok('ty', ev, g)
            yv = args[2] if kind == 'race' else args[1] if kind == 'jump' else args[1][0]
            ages = sc.ty_ages(yv)
            try:
                r = G['athlib'].tyrving_score(g, ages[0], ev, sc.ty_base(yv, ages[0]))
                if not isinstance(r, int):
                    acc.bad('C11:ty:row-not-reachable', dict(g=g, ev=ev), 'returned %r' % (r,))
            except Exception as e:
                acc.bad('C11:ty:row-not-reachable', dict(g=g, ev=ev), 'tyrving_score under the table key raised %r' % (e,))
    for ct, tab in G['qk']._qkidsTables.items():
        for ev, row in tab.items():
            key_ok('qk', ev, ct)
            acc.n += 1
            timed = G['codes'].PAT_RUN.match(ev) is not None
            inc, worst, best = row
            if inc <= 0 or (timed and not best < worst) or (not timed and not best > worst):
                acc.bad('C11:qk:table-row-not-ordered', dict(ct=ct, ev=ev), 'row %r' % (row,))
            try:
                r = G['athlib'].qkids_score(ct, ev, best)
                if not (isinstance(r, int) and 10 <= r <= 100):
                    acc.bad('C11:qk:row-not-reachable', dict(ct=ct, ev=ev), 'scoring the third table value under the key returned %r' % (r,))
            except Exception as e:
                acc.bad('C11:qk:row-not-reachable', dict(ct=ct, ev=ev), repr(e))
    for ev, t in sc.sh_table().items():
        key_ok('sh', ev, 'RAWDATA', upper_identity=True)
        th = t['th']
        for (p0, v0), (p1, v1) in zip(th, th[1:]):
            acc.n += 1
            if (t['high'] and v1 < v0) or (not t['high'] and v1 > v0):
                acc.bad('C11:sh:table-not-ordered', dict(ev=ev, points=[p0, p1], marks=[str(v0), str(v1)]),
                        '%d points at %s but %d points at %s' % (p0, v0, p1, v1))
    for key, tab in G['bg'].scores.items():
        job = [j for j in sc.bg_jobs('quick') if j['key'] == key][0]
        key_ok('bg', job['ev'], key, upper_identity=True)
        lo, hi = sorted((tab['min'], tab['max']))
        prev = None
        for cs in range(lo, hi + 1):
            acc.n += 1
            if cs not in tab:
                acc.bad('C11:bg:table-row-missing', dict(key=key, row=cs), 'no row for %d between min and max' % cs)
                continue
            v = tab[cs]
            if prev is not None:
                better, worse = (prev, v) if job['timed'] else (v, prev)
                if better < worse:
                    acc.bad('C11:bg:table-not-ordered', dict(key=key, row=cs), 'row %d gives %d points, row %d gives %d' % (cs - 1, prev, cs, v))
            prev = v
    return acc.pack()


def run(tier):
    common.bind_repo()
    rep = Report(PID, tier, 'exploration')
    jobs = []
    for s in SYS:
        jobs += sc.split_jobs(sc.SYSTEMS[s]['jobs'](tier), tier)
    jobs.sort(key=lambda j: -(j['hi'] - j['lo']) // j.get('stride', 1))
    packs = pmap(sc.sweep, jobs)
    for p in packs:
        p['viol'] = [v for v in p['viol'] if v['sig'].startswith('C11:')]
    for s in SYS:
        sub = [p for p, j in zip(packs, jobs) if j['sys'] == s]
        merge(rep, sub, part='%s sweep' % sc.SYSTEMS[s]['name'])
    merge(rep, [table_clauses()], part='table clauses (ordering, keys, reachability)')
    c = rep.coverage
    c['jobs'] = len(jobs)
    c['rule'] = ('every (system, table, event, age) x every mark of the 0.01 grid from well below to well above the tabulated range x every documented input '
                 'form (two-decimal text, float, int, one-decimal text, m:ss.xx); oracle = Fraction/Decimal evaluation of the table data; non-trivial = '
                 'evaluations above the floor score that agree with the oracle' + ('; quick: rows longer than 120 000 marks use stride 7 past the first 3000' if tier == 'quick' else ''))
    c['exhaustive'] = tier == 'thorough'
    rep.assumptions += ['table constants are the decimal literals in the source; Sportshall thresholds re-read from RAWDATA (SHJ in cm)',
                        'Tyrving: one-decimal timed text is hand-timed; Bulgarian field events take numbers only; Sportshall takes text or numbers (no m:ss)',
                        'equal thresholds give the higher points']
    orderpass.part(rep, sc.order_calls(), 'scoring call-order pass')
    crossapi.part(rep, PID, tier)
    return rep.finish()


def replay(rec):
    c = rec['case']
    s = c.get('sys') or c.get('system')
    print(rec['sig'], '-', rec['msg'])
    if 'mark' in c and s in sc.SYSTEMS:
        try:
            print('call ->', sc.SYSTEMS[s]['call'](c, c['mark']))
        except Exception as e:
            print('call raised', repr(e))
    return 1
