"""C19 - schema validation answers do not depend on what was validated before.   DESIGN.md 2.4, 3/C19.
Reference outcome of every call = that single call in a fresh interpreter (cwd=/repo and cwd=/, sockets stubbed).  Explored histories from a
restored pristine state: all calls alone, all ordered pairs, all triples over calls sharing a cache key, and saturated histories that fill the
20-entry caches to 19/20/21 distinct keys before and around every probe."""
import os, sys, itertools
from vlib import common, hist, shared
from vlib.common import Report, Violation, HarnessError, Acc, pmap, merge

PID = 'C19'
SCHEMAS = ['athlete', 'combined_performance', 'competition', 'event', 'performance', 'race', 'metaschema']
VALIDATORS = ['Draft3Validator', 'Draft4Validator', 'Draft7Validator']
_G = {}


def samples():
    d = os.path.join(common.REPO, 'sample-jsons')
    return sorted(f for f in os.listdir(d) if f.endswith('.json'))


def own_schema(doc):
    for s in sorted(SCHEMAS, key=len, reverse=True):
        if doc.startswith(s):
            return 'json/%s.json' % s
    return None


def alphabet():
    A = []
    for s in SCHEMAS:
        for v in VALIDATORS:
            for ef in (False, True):
                A.append(('sv', 'json/%s.json' % s, v, ef))
    for doc in samples():
        for sch in (own_schema(doc), 'json/metaschema.json'):
            if sch is None:
                continue
            for ef in (False, True):
                A.append(('va', 'sample-jsons/' + doc, sch, ef))
    return A


def first_sample(schema_name, invalid=False):
    for doc in samples():
        if own_schema(doc) == 'json/%s.json' % schema_name and ('invalid' in doc) == invalid:
            return 'sample-jsons/' + doc
    return None


def cross_calls():
    """a valid sample of every family validated against the schema of every OTHER family (the answer is whatever a fresh process says)"""
    out = []
    fams = [s for s in SCHEMAS if s != 'metaschema']
    for s in fams:
        for t in fams:
            d = first_sample(t)
            if t != s and d:
                out.append(('va', d, 'json/%s.json' % s, False))
    return out


def reduced_alphabet():
    """per schema: a valid own sample, an invalid own sample, a sample of another family, the schema check itself"""
    R = []
    fams = [s for s in SCHEMAS if s != 'metaschema']
    for i, s in enumerate(fams):
        for d in (first_sample(s), first_sample(s, invalid=True), first_sample(fams[(i + 1) % len(fams)])):
            if d:
                R.append(('va', d, 'json/%s.json' % s, False))
    for s in SCHEMAS:
        R.append(('sv', 'json/%s.json' % s, 'Draft4Validator', False))
    return R


def spelled_calls():
    """the same bundled schemas named the other ways the library's local-path look-up supports: bare file name, backslash separators, a leading './', an
    absolute path, a name below json/ without the json/ prefix"""
    out = []
    subs = []
    dd = os.path.join(common.REPO, 'json', 'definitions')
    if os.path.isdir(dd):
        subs = ['definitions/' + f for f in sorted(os.listdir(dd)) if f.endswith('.json')][:2]
    for s in ('athlete', 'event', 'race'):
        for name in ('%s.json' % s, 'json\\%s.json' % s, './json/%s.json' % s, os.path.join(common.REPO, 'json', '%s.json' % s)):
            out.append(('sv', name, 'Draft4Validator', False))
            d = first_sample(s)
            if d:
                out.append(('va', d, name, False))
                out.append(('va', d.replace('/', '\\'), name, False))
    for name in subs:
        out.append(('sv', name, 'Draft4Validator', False))
        out.append(('sv', name.replace('/', '\\'), 'Draft7Validator', False))
    return out


def key_of(call):
    return (call[0], call[1], call[2])


def setup():
    if _G:
        return _G
    common.bind_repo()
    import jsonschema
    _G['U'] = common.mod('athlib.utils')
    _G['js'] = jsonschema
    _G['state'] = shared.SharedState('athlib')
    _G['pristine'] = _G['state'].capture()
    return _G


def reset(snap=None):
    G = setup()
    G['state'].restore(snap or G['pristine'])


def run_history(h, fresh, acc, states, snap=None, label='history'):
    cwd0 = os.getcwd()
    try:
        os.chdir(common.REPO)           # histories start in the repository directory (where the relative names exist as such)
        return _run_history(h, fresh, acc, states, snap, label)
    finally:
        os.chdir(cwd0)


def _run_history(h, fresh, acc, states, snap=None, label='history'):
    G = setup()
    reset(snap)
    for i, call in enumerate(h):
        if call[0] == 'cd':                  # the caller changes its working directory between two calls
            os.chdir(call[1])
            continue
        acc.n += 1
        got = hist.execute(G['U'], G['js'], call)
        states.add(hist.cache_state(G['U']))
        want = fresh[tuple(call)]
        if got != want:
            earlier = [c for c in h[:i] if c[0] != 'cd' and key_of(c) == key_of(call)]
            kind = 'after-same-key-call' if earlier else 'after-other-calls'
            acc.bad('%s:%s:%s-instead-of-%s' % (call[0], kind, '-'.join(map(str, got)), '-'.join(map(str, want))),
                    dict(history=[list(c) for c in h[:i + 1]], label=label),
                    'call %d %r gave %r, first in a fresh process it gives %r' % (i + 1, call, got, want))
            return False
    acc.nontrivial += 1
    return True


def work(chunk):
    kind, items = chunk
    G = setup()
    fresh = _G['fresh']
    acc = Acc()
    states = set()
    for h in items:
        run_history(h, fresh, acc, states, label=kind)
    acc.extra['states'] = len(states)
    if items and not acc.samples:
        acc.samples.append(dict(kind=kind, history=[list(c) for c in items[len(items) // 2]]))
    return acc.pack()


def filler_calls(fn, exclude_key, n):
    """n calls of the same function with distinct keys, none equal to exclude_key (deterministic order)"""
    out = []
    if fn == 'sv':
        for v in ['Draft6Validator'] + VALIDATORS:
            for s in SCHEMAS:
                c = ('sv', 'json/%s.json' % s, v, False)
                if key_of(c) != exclude_key:
                    out.append(c)
    else:
        for doc in samples():
            for sch in (own_schema(doc), 'json/metaschema.json'):
                c = ('va', 'sample-jsons/' + doc, sch, False)
                if sch and key_of(c) != exclude_key:
                    out.append(c)
    if len(out) < n:
        raise HarnessError('not enough distinct keys to saturate the %s cache' % fn)
    return out[:n]


def sat_work(chunk):
    probes, = chunk
    G = setup()
    fresh = _G['fresh']
    acc = Acc()
    states = set()
    for p in probes:
        for n in (19, 20, 21):
            pre = filler_calls(p[0], key_of(p), n)
            # the prefix calls are themselves checked (each is a call of a history)
            run_history(pre + [p], fresh, acc, states, label='saturated-%d-then-probe' % n)
            run_history([p] + pre + [p], fresh, acc, states, label='probe-saturated-%d-probe' % n)
            q = (p[0], p[1], p[2], not p[3])
            run_history([p] + pre + [q], fresh, acc, states, label='probe-saturated-%d-twin' % n)
    acc.extra['states'] = len(states)
    if probes and not acc.samples:
        acc.samples.append(dict(kind='saturated', probe=list(probes[0]), prefix_len=[19, 20, 21]))
    return acc.pack()


def run(tier):
    rep = Report(PID, tier, 'model_checking')
    G = setup()
    A = alphabet()
    extra = [('sv', 'json/%s.json' % s, 'Draft6Validator', False) for s in SCHEMAS]
    # validator classes derived with jsonschema.validators.extend (they all carry the class name 'Validator')
    EXTV = [('sv', 'json/%s.json' % sname, 'ext:' + v, ef) for sname in SCHEMAS for v in ('Draft3Validator', 'Draft4Validator') for ef in (False, True)]
    # class-statement subclasses with a meta-schema of their own
    EXTV += [('sv', 'json/%s.json' % sname, 'sub:' + v, ef) for sname in SCHEMAS[:4] for v in ('Draft4Validator', 'Draft7Validator') for ef in (False, True)]
    extra += EXTV
    X = cross_calls()
    R = reduced_alphabet()
    extra += [c for c in X + R if c not in A and c not in extra]
    SP = spelled_calls()
    extra += [c for c in SP if c not in A and c not in extra]
    # the schema files below json/definitions (one of them is not a valid schema itself): checked, and used as the schema of a document
    DEFS = []
    dd = os.path.join(common.REPO, 'json', 'definitions')
    if os.path.isdir(dd):
        for f in sorted(os.listdir(dd)):
            if f.endswith('.json'):
                for ef in (False, True):
                    DEFS.append(('sv', 'json/definitions/' + f, 'Draft4Validator', ef))
                    for d in (first_sample('performance'), first_sample('athlete')):
                        if d:
                            DEFS.append(('va', d, 'json/definitions/' + f, ef))
    extra += [c for c in DEFS if c not in A and c not in extra]
    # ---- reference outcomes from fresh processes
    fr = hist.fresh_outcomes(A + extra, [common.REPO, '/'])
    fresh = {}
    acc = Acc()
    for c in A + extra:
        a, b = fr[(tuple(c), common.REPO)], fr[(tuple(c), '/')]
        acc.n += 2
        if a[0] != b[0]:
            acc.bad('outcome-depends-on-working-directory', dict(call=list(c)), 'cwd=%s -> %r, cwd=/ -> %r' % (common.REPO, a[0], b[0]))
        if a[1] or b[1]:
            acc.bad('network-access-attempted', dict(call=list(c)), 'connection attempts: %r' % ((a[1] or b[1])[:2],))
        fresh[tuple(c)] = a[0]
    # bundled samples: valid ones validate, invalid ones do not
    for c in A:
        if c[0] != 'va' or c[2].endswith('metaschema.json'):
            continue
        invalid = 'invalid' in c[1]
        want = (('exc', 'ValidationError') if c[3] else ('ret', False)) if invalid else ('ret', True)
        acc.n += 1
        if fresh[tuple(c)] != want:
            acc.bad('bundled-sample-%s' % ('invalid-but-accepted' if invalid else 'valid-but-rejected'), dict(call=list(c)), 'fresh outcome %r, expected %r' % (fresh[tuple(c)], want))
        else:
            acc.nontrivial += 1
    merge(rep, [acc.pack()], part='fresh-process reference outcomes (%d calls x 2 working directories)' % len(A + extra))
    _G['fresh'] = fresh
    ntrans = 0
    nstates = 0

    def go(name, worker, chunks):
        nonlocal ntrans, nstates
        packs = pmap(worker, chunks)
        t = merge(rep, packs, part=name)
        ntrans += t['n']
        nstates += t['extra'].get('states', 0)

    # ---- length 1 (also establishes that the in-process reset is equivalent to a fresh process)
    go('all calls alone', work, [('single', [[c] for c in A[i::16]]) for i in range(16)])
    # ---- ordered pairs
    if tier == 'thorough':
        pairs = [[a, b] for a in A for b in A]
    else:
        files = lambda c: {c[1]} if c[0] == 'sv' else {c[1], c[2]}
        pairs = [[a, b] for a in A for b in A if files(a) & files(b)]          # same schema or document, either function
    go('ordered pairs (%s)' % ('all of A x A' if tier == 'thorough' else 'calls sharing a schema or a document'), work,
       [('pair', pairs[i::64]) for i in range(64)])
    # ---- triples over calls sharing a cache key
    bykey = {}
    for c in A:
        bykey.setdefault(key_of(c), []).append(c)
    triples = [list(t) for calls in bykey.values() for t in itertools.product(calls, repeat=3)]
    go('triples over calls sharing a cache key', work, [('triple', triples[i::16]) for i in range(16)])
    # ---- derived validator classes: alone, and in ordered pairs with every schema check of the same file
    go('schema checks with derived validator classes alone', work, [('single', [[c] for c in EXTV[i::8]]) for i in range(8)])
    svA = [c for c in A if c[0] == 'sv'] + EXTV
    ep = [[a, b] for a in EXTV for b in svA if a[1] == b[1]] + [[b, a] for a in EXTV for b in svA if a[1] == b[1] and b not in EXTV]
    go('ordered pairs with a derived validator class on the same schema file', work, [('pair', ep[i::32]) for i in range(32)])
    # ---- documents against the schemas of other families: alone, and in ordered pairs with every call on the same schema or document
    go('mismatched document/schema calls alone', work, [('single', [[c] for c in X[i::16]]) for i in range(16)])
    files = lambda c: {c[1]} if c[0] == 'sv' else {c[1], c[2]}
    xp = [[a, b] for a in X for b in A + X if files(a) & files(b)] + [[b, a] for a in X for b in A if files(a) & files(b)]
    if tier == 'quick':
        xp = [h for h in xp if not (h[0][3] or h[1][3])]
    go('ordered pairs with a mismatched document/schema call', work, [('pair', xp[i::64]) for i in range(64)])
    # ---- the bundled schemas under their other spellings (bare name, backslashes, './', absolute): alone, all ordered pairs among them, and pairs with every
    #      ordinary call on the same schema
    go('schema names in other spellings alone', work, [('single', [[c] for c in SP[i::8]]) for i in range(8)])
    base = lambda c: os.path.basename((c[1] if c[0] == 'sv' else c[2]).replace('\\', '/'))
    spp = [[a, b] for a in SP for b in SP] + [[a, b] for a in SP for b in A if base(a) == base(b) and not b[3]] + [[b, a] for a in SP for b in A if base(a) == base(b) and not b[3]]
    go('ordered pairs with a schema named in another spelling', work, [('pair', spp[i::64]) for i in range(64)])
    spt = [[a, b, c] for a in SP[::3] for b in SP[1::3] for c in SP[2::3]]
    go('triples over schema names in other spellings', work, [('triple', spt[i::32]) for i in range(32)])
    # ---- the definitions schemas: alone, every ordered pair on the same file, and the a-a-b / a-b-a triples on the same file
    go('definitions schemas alone', work, [('single', [[c] for c in DEFS[i::8]]) for i in range(8)])
    sf = lambda c: c[1] if c[0] == 'sv' else c[2]
    dp = [[a, b] for a in DEFS for b in DEFS if sf(a) == sf(b)]
    dt = [[a, a, b] for a, b in dp] + [[a, b, a] for a, b in dp if a != b]
    go('ordered pairs and triples of calls on one definitions schema', work, [('pair', (dp + dt)[i::32]) for i in range(32)])
    # ---- several failing documents of one schema one after the other (whatever counts or remembers failures per schema): every order of the invalid
    #      samples of a schema (expect_failure False), then each once more
    import itertools as _it
    perms = []
    for sname in SCHEMAS:
        inv = [c for c in A if c[0] == 'va' and c[2] == 'json/%s.json' % sname and 'invalid' in c[1] and not c[3]]
        for p_ in _it.islice(_it.permutations(inv), 120):
            if len(p_) >= 2:
                perms.append(list(p_) + [p_[0]])
    go('every order of the invalid samples of a schema, then the first again', work, [('perm', perms[i::32]) for i in range(32)])
    # ---- a change of working directory between two calls (every fresh outcome was shown above to be the same from both directories)
    cdp = [[a, ('cd', '/'), b] for a, b in pairs if not (a[3] or b[3])] + [[('cd', '/'), a, ('cd', common.REPO), b] for a, b in pairs if not (a[3] or b[3])]
    if tier == 'quick':
        cdp = [h for h in cdp if h[-1][0] != h[0][0] or h[-1][0] == 'sv' or h[-1][1:3] != [c for c in h if c[0] != 'cd'][0][1:3]][::2]
    go('ordered pairs with a change of working directory in between', work, [('pair-chdir', cdp[i::64]) for i in range(64)])
    # ---- files that come and go between two calls: a temporary copy of a valid sample is validated and deleted, then a copy of an invalid sample
    #      is created under another name (it may well get the same inode) and validated: each answer is that of the file's content
    import tempfile, shutil
    acc = Acc()
    G = setup()
    good, bad = os.path.join(common.REPO, 'sample-jsons', 'athlete.json'), os.path.join(common.REPO, 'sample-jsons', 'athlete_invalid.json')
    if os.path.exists(good) and os.path.exists(bad):
        td = tempfile.mkdtemp(prefix='c19files.')
        try:
            for rnd in range(8):
                reset()
                hist_ = []
                for k, (src, want) in enumerate([(good, ('ret', True)), (bad, ('ret', False)), (good, ('ret', True)), (bad, ('ret', False))]):
                    f = os.path.join(td, 'doc_%d_%d.json' % (rnd, k))
                    shutil.copyfile(src, f)
                    call = ('va', f, 'json/athlete.json', False)
                    got = hist.execute(G['U'], G['js'], call)
                    hist_.append([os.path.basename(src), list(got)])
                    acc.n += 1
                    if got != want:
                        acc.bad('va:after-other-calls:temporary-file-%s-instead-of-%s' % ('-'.join(map(str, got)), '-'.join(map(str, want))),
                                dict(history=hist_, label='temporary files created and deleted between calls'),
                                'a temporary copy of %s validated %r; earlier calls on files since deleted: %r' % (os.path.basename(src), got, hist_[:-1]))
                    else:
                        acc.nontrivial += 1
                    os.remove(f)
        finally:
            shutil.rmtree(td, ignore_errors=True)
            reset()
    merge(rep, [acc.pack()], part='temporary documents created, validated and deleted in turn (8 rounds of valid / invalid / valid / invalid)')
    # ---- all triples over the reduced alphabet (state kept outside the two result caches shows only in such mixed histories)
    RT = list(R)
    if tier == 'thorough':
        # a wider reduced alphabet: the expect_failure twins of the own-sample calls, and the schema checks with a second validator class
        RT += [(c[0], c[1], c[2], True) for c in R if c[0] == 'va' and own_schema(os.path.basename(c[1])) == c[2]]
        RT += [('sv', 'json/%s.json' % sname, 'Draft7Validator', ef) for sname in SCHEMAS[:4] for ef in (False, True)]
        RT = [c for c in dict.fromkeys(RT) if tuple(c) in fresh]
    triples = [list(t) for t in itertools.product(RT, repeat=3)]
    go('all triples over the reduced alphabet of %d calls' % len(RT), work, [('triple', triples[i::64]) for i in range(64)])
    # ---- saturated histories
    probes = A if tier == 'thorough' else [c for c in A if c[0] == 'sv'] + [c for c in A if c[0] == 'va'][::3]
    go('saturated histories around %d probes (19/20/21 distinct keys)' % len(probes), sat_work, [(probes[i::32],) for i in range(32)])
    c = rep.coverage
    c['states'] = nstates
    c['transitions'] = ntrans
    c['traces_validated_against_impl'] = ntrans
    c['alphabet'] = len(A)
    c['rule'] = ('histories = sequences of real calls from a restored pristine state; state = ordered contents of the two caches; every call outcome is compared with '
                 'the same call made first in a fresh interpreter; non-trivial = histories in which every call agreed')
    c['exhaustive'] = True
    rep.assumptions += ['restoring the captured module state of athlib is equivalent to a fresh process (established on all length-1 histories)',
                        'independence of calls with different keys below the size limit is what the exhaustive pair level establishes; longer histories are the '
                        'saturated families', 'states counted per worker chunk (an upper bound on distinct states)']
    return rep.finish()


def replay(rec):
    G = setup()
    h = [tuple(c) for c in rec['case']['history']]
    fr = hist.fresh_outcomes([h[-1]], [common.REPO])
    reset()
    for c in h:
        print(c, '->', hist.execute(G['U'], G['js'], c))
    print('fresh process:', h[-1], '->', fr[(h[-1], common.REPO)][0])
    print(rec['sig'], '-', rec['msg'])
    return 1
