"""C13 - UK age groups follow the rule cut-off dates for every birth and meeting date.   DESIGN.md 3/C13.
All (birth, meeting) date pairs over a four-year leap cycle of meeting dates (thorough: every birth date from 110 years before
to the day itself; quick: birth dates within +-2 days of every anniversary that can matter, in each of the 111 years) for TF
and XC under the four option combinations; oracle = the rule text on integer completed-years ages."""
import datetime
from datetime import date, timedelta
from vlib import concpass
from vlib import common
from vlib import orderpass
from vlib.common import Report, Violation, HarnessError, Acc, pmap, merge

PID = 'C13'
D0 = date(2015, 1, 1)
NDAYS = 1461
ORDER = ['U9', 'U11', 'U13', 'U15', 'U17', 'U20', 'SEN'] + ['V%02d' % a for a in range(35, 200, 5)]
RANK = {g: i for i, g in enumerate(ORDER)}


def leap(y):
    return y % 4 == 0 and (y % 100 != 0 or y % 400 == 0)


def age_on(on, birth):
    """completed years; 29 February birthdays count on 28 February in common years"""
    bm, bd = birth.month, birth.day
    if (bm, bd) == (2, 29) and not leap(on.year):
        bd = 28
    return on.year - birth.year - (1 if (on.month, on.day) < (bm, bd) else 0)


def masters(a_day, vets):
    if a_day < 35 or not vets:
        return 'SEN'
    return 'V%02d' % (5 * (a_day // 5))


def oracle_tf(birth, match, vets, underage):
    a_aug = age_on(date(match.year, 8, 31), birth)
    a_dec = age_on(date(match.year, 12, 31), birth)
    a_day = age_on(match, birth)
    if underage and a_aug < 9:
        return 'U9'
    if a_aug < 11:
        return 'U11'
    if a_aug <= 12:
        return 'U13'
    if a_aug <= 14:
        return 'U15'
    if a_aug <= 16:
        return 'U17'
    if a_dec < 20:
        return 'U20'
    return masters(a_day, vets)


def oracle_xc(birth, match, vets, underage):
    cut = date(match.year, 8, 31)
    if cut > match:
        cut = date(match.year - 1, 8, 31)
    a_cut = age_on(cut, birth)
    a_day = age_on(match, birth)
    if underage and a_day < 9:
        return 'U9'
    if a_day < 11:
        return 'U11'
    if a_cut <= 12:
        return 'U13'        # 11 on the day, or 12 on the 31 August before
    if a_cut <= 14:
        return 'U15'
    if a_cut <= 16:
        return 'U17'
    if a_cut <= 19:
        return 'U20'
    return masters(a_day, vets)


OPTS = [(True, False), (True, True), (False, False), (False, True)]


def births_for(match, tier):
    """birth dates to pair with this meeting date, ascending"""
    start = date(match.year - 110, match.month, match.day if (match.month, match.day) != (2, 29) else 28)
    # beyond 110 years (placeholder birth dates such as 1900-01-01 or 1880-06-15 do occur): around the anniversary of the meeting day and 31 Aug / 1 Sep
    old = set()
    for y in range(match.year - 160, match.year - 109):
        for (m, d) in ((match.month, match.day), (8, 31), (1, 1)):
            try:
                a = date(y, m, d)
            except ValueError:
                a = date(y, m, 28)
            for k in (-1, 0, 1):
                b = a + timedelta(days=k)
                if b < start:
                    old.add(b)
    if tier == 'thorough':
        n = (match - start).days
        return sorted(old) + [start + timedelta(days=i) for i in range(n + 1)]
    S = set(old)
    anchors = [(match.month, match.day), (8, 31), (9, 1), (12, 31), (1, 1), (2, 28), (3, 1)]
    for y in range(match.year - 111, match.year + 1):
        for (m, d) in anchors:
            if (m, d) == (2, 29) and not leap(y):
                d = 28
            try:
                a = date(y, m, d)
            except ValueError:
                continue
            for k in range(-2, 3):
                b = a + timedelta(days=k)
                if start <= b <= match:
                    S.add(b)
        if leap(y):
            b = date(y, 2, 29)
            if start <= b <= match:
                S.add(b)
    return sorted(S)


def check_pair(acc, calc, cat, oracle, birth, match, assert_oracle, prev):
    """returns the result under the default options (for the monotonicity clause)"""
    res = {}
    for (vets, underage) in OPTS:
        acc.n += 1
        try:
            r = calc(birth, match, cat, vets, underage)
        except Exception as e:
            acc.bad('%s:raises-%s' % (cat, type(e).__name__), dict(birth=birth, match=match, category=cat, vets=vets, underage=underage), repr(e))
            return None
        res[(vets, underage)] = r
        if r not in RANK:
            acc.bad('%s:unknown-group' % cat, dict(birth=birth, match=match, category=cat, vets=vets, underage=underage), 'returned %r' % (r,))
            return None
        if assert_oracle:
            w = oracle(birth, match, vets, underage)
            if r != w:
                acc.bad('%s:differs-from-rule-text:%s-instead-of-%s' % (cat, r, w), dict(birth=birth, match=match, category=cat, vets=vets, underage=underage),
                        'calc_uka_age_group = %r, the rule text gives %r' % (r, w))
            else:
                acc.nontrivial += 1
    base = res[(True, False)]
    # vets option only maps V* -> SEN
    for ua in (False, True):
        a, b = res[(True, ua)], res[(False, ua)]
        if b != ('SEN' if a.startswith('V') else a):
            acc.bad('%s:vets-option-changes-more-than-masters' % cat, dict(birth=birth, match=match, category=cat, underage=ua), 'vets=True %r, vets=False %r' % (a, b))
    # underage option only changes U11 outcomes
    for v in (False, True):
        a, b = res[(v, False)], res[(v, True)]
        if b != a and not (a == 'U11' and b == 'U9'):
            acc.bad('%s:underage-option-changes-more-than-under-11' % cat, dict(birth=birth, match=match, category=cat, vets=v), 'underage=False %r, underage=True %r' % (a, b))
    # an earlier birth date never gives a younger group (prev = result for the next-later birth date... we go ascending, so prev is older)
    for k in OPTS:
        if prev is not None and prev.get(k) is not None and RANK[res[k]] > RANK[prev[k]]:
            acc.bad('%s:earlier-birth-younger-group' % cat, dict(birth=birth, match=match, category=cat, vets=k[0], underage=k[1]),
                    'born %s -> %r but born earlier -> %r' % (birth, res[k], prev[k]))
    return res


# meeting dates outside the 2015-2018 cycle: century years (2000 a leap year, 1900 and 2100 not), leap days, ends of years and of the Unix epoch range
EXTRA_MEETINGS = [date(2000, 2, 29), date(2000, 3, 1), date(2000, 8, 31), date(2000, 9, 1), date(2020, 2, 29), date(2024, 2, 29), date(2024, 12, 31), date(2025, 1, 1),
                  date(2100, 2, 28), date(2100, 3, 1), date(2100, 8, 31), date(2100, 12, 31), date(1999, 12, 31), date(2038, 1, 19), date(2038, 1, 20), date(1970, 1, 1),
                  date(2019, 8, 31), date(2019, 9, 1), date(2030, 6, 15), date(2099, 10, 1)]


def work(chunk):
    tier, lo, hi = chunk
    athlib = common.bind_repo()
    calc = athlib.calc_uka_age_group
    acc = Acc()
    for di in range(lo, hi):
        match = D0 + timedelta(days=di) if di >= 0 else EXTRA_MEETINGS[-di - 1]
        tf_assert = (match.month, match.day) <= (9, 30)
        B = births_for(match, tier)
        prev_tf = prev_xc = None
        for birth in B:
            prev_tf = check_pair(acc, calc, 'TF', oracle_tf, birth, match, tf_assert, prev_tf)
            prev_xc = check_pair(acc, calc, 'XC', oracle_xc, birth, match, True, prev_xc)
        if di % 183 == 0 or di < 0:
            # ISO strings and ROAD dispatch on this meeting date
            for birth in (B if tier == 'thorough' else B[::3]):
                for cat in ('TF', 'XC'):
                    acc.n += 1
                    try:
                        a = calc(birth, match, cat)
                        b = calc(birth.isoformat(), match, cat)
                        if a != b:
                            acc.bad('%s:iso-string-differs-from-date' % cat, dict(birth=birth, match=match, category=cat), 'date -> %r, string -> %r' % (a, b))
                        from datetime import datetime as _dt
                        b3 = calc(_dt(birth.year, birth.month, birth.day), match, cat)      # a datetime at midnight is a date object too
                        if a != b3:
                            acc.bad('%s:datetime-birth-differs-from-date' % cat, dict(birth=birth, match=match, category=cat), 'date -> %r, datetime at midnight -> %r' % (a, b3))
                        if birth.year >= 1000:
                            b2 = calc(birth.strftime('%Y%m%d'), match, cat)          # ISO 8601 basic format
                            if a != b2:
                                acc.bad('%s:iso-string-differs-from-date' % cat, dict(birth=birth, match=match, category=cat, form='YYYYMMDD'), 'date -> %r, string -> %r' % (a, b2))
                    except Exception as e:
                        acc.bad('%s:iso-string-raises-%s' % (cat, type(e).__name__), dict(birth=birth, match=match, category=cat), repr(e))
                for o in OPTS:
                    acc.n += 1
                    try:
                        if calc(birth, match, 'ROAD', *o) != calc(birth, match, 'XC', *o):
                            acc.bad('ROAD:differs-from-XC', dict(birth=birth, match=match, vets=o[0], underage=o[1]), 'ROAD and XC disagree')
                    except Exception as e:
                        acc.bad('ROAD:raises-%s' % type(e).__name__, dict(birth=birth, match=match), repr(e))
        if not acc.samples and B:
            b = B[len(B) // 2]
            acc.samples.append(dict(birth=b, match=match, TF=calc(b, match, 'TF'), XC=calc(b, match, 'XC')))
    return acc.pack()


def run(tier):
    common.bind_repo()
    rep = Report(PID, tier, 'exploration')
    chunks = [(tier, a, b) for a, b in common.split_range(0, NDAYS, 16 * 12 if tier == 'thorough' else 64)]
    chunks += [('quick', -k - 1, -k) for k in range(len(EXTRA_MEETINGS))]        # the boundary birth sets suffice here
    merge(rep, pmap(work, chunks), part='meeting dates 2015-01-01..2018-12-31 and 20 dates in other years x birth dates (%s)' % (
        'every day of the preceding 110 years' if tier == 'thorough' else '+-2 days of every anniversary of the meeting day, 31 Aug/1 Sep, 31 Dec/1 Jan, 28 Feb/29 Feb/1 Mar in each of 111 years'))
    acc = Acc()
    calc = common.bind_repo().calc_uka_age_group
    for cat, exc in (('ESAA', NotImplementedError), ('bogus', ValueError)):
        acc.n += 1
        try:
            calc(date(2000, 1, 1), date(2015, 6, 1), cat)
            acc.bad('unknown-category-accepted', dict(category=cat), 'returned a group')
        except exc:
            pass
        except Exception as e:
            acc.bad('unknown-category-raises-%s' % type(e).__name__, dict(category=cat), repr(e))
    merge(rep, [acc.pack()], part='category dispatch')
    c = rep.coverage
    c['rule'] = ('every meeting date of one four-year leap cycle x the stated birth dates x {TF, XC} x vets x underage (+ ROAD dispatch and ISO-string births on 8 '
                 'meeting dates); rule-text equality for TF on meetings 1 Jan-30 Sep, for XC on all; structural clauses on all; non-trivial = results equal to the oracle')
    c['exhaustive'] = True
    rep.assumptions += ['29 February birthdays count on 28 February in common years', 'XC/ROAD cut-off = the 31 August on or before the meeting',
                        'monotonicity is compared between consecutive enumerated birth dates (not necessarily adjacent days in the quick tier)']
    import datetime as _dt
    A = 'athlib.uka.agegroups:calc_uka_age_group'
    oc = []
    for cat in ('TF', 'XC', 'ROAD'):
        for b, m in ((_dt.date(2003, 10, 15), _dt.date(2014, 10, 15)), (_dt.date(1980, 2, 29), _dt.date(2015, 2, 28)), (_dt.date(1966, 3, 21), _dt.date(2015, 9, 1)),
                     (_dt.date(2000, 8, 31), _dt.date(2015, 12, 31)), (_dt.date(2007, 1, 1), _dt.date(2016, 6, 1))):
            oc.append((A, (b, m, cat)))
            oc.append((A, (b, m, cat), dict(vets=False, underage=True)))
    oc += [(A, ('1990-05-01', _dt.date(2016, 7, 1), 'TF')), (A, ('1990-05-01', '2016-07-01', 'XC')), (A, (_dt.date(1990, 5, 1), _dt.date(2016, 7, 1), 'nonsense'))]
    orderpass.part(rep, oc, 'age-group call-order pass')
    concpass.part(rep, PID, tier)
    return rep.finish()


def replay(rec):
    if concpass.is_conc(rec):
        return concpass.replay(rec)
    c = rec['case']
    calc = common.bind_repo().calc_uka_age_group
    b, m = date.fromisoformat(c['birth']), date.fromisoformat(c['match'])
    cat = c.get('category', 'TF')
    for o in OPTS:
        try:
            r = calc(b, m, cat, *o)
        except Exception as e:
            r = 'raised %r' % e
        w = (oracle_tf if cat == 'TF' else oracle_xc)(b, m, *o)
        print('%s born %s meeting %s vets=%s underage=%s -> %s (rule text %s)' % (cat, b, m, o[0], o[1], r, w))
    print(rec['sig'], '-', rec['msg'])
    return 1
