"""C16 - concurrent calls give the single-threaded answers.   DESIGN.md 2.3, 3/C16.

Every interleaving (source-line granularity inside athlib) of 2-3 threads calling functions backed by shared
module state, up to a bound of pre-emptions, first-call and warmed-up variants.  Oracle: each thread's
(value | exception type) equals that of the same call run alone from the same starting state."""
import os, sys, time, threading
from vlib import common, sched, shared
from vlib.common import Report, Violation, HarnessError

PID = 'C16'
SET = os.environ.get('VERIF_SCEN_SET', 'C16')      # other sets (checks/concsets.py) are the concurrency passes of other checks, run through vlib/concrun.py


def _import():
    a = common.bind_repo()
    for m in ('athlib.athlon_score', 'athlib.hungarian_score', 'athlib.sportshall_score', 'athlib.utils', 'athlib.wma.agegrader',
              'athlib.tyrving_score', 'athlib.qkids_score', 'athlib.bulgarian_score', 'athlib.implements', 'athlib.uka.agegroups'):
        common.mod(m)
    return a


if 'athlib' in sys.modules:
    raise HarnessError('athlib imported before the lock shim was installed')
athlib = sched.import_with_coop_locks(_import)

STATE = shared.SharedState('athlib')
PRISTINE = STATE.capture()

SCHEMAS = ['json/athlete.json', 'json/event.json', 'json/race.json', 'json/performance.json', 'json/competition.json',
           'json/combined_performance.json', 'json/metaschema.json']


def U():
    return common.mod('athlib.utils')


def HS():
    return common.mod('athlib.hungarian_score')


# ------------------------------------------------------------------------------------------------
# scenarios: name -> (warm-up calls, thread bodies, description)

def _call(fn, *a, **k):
    def body():
        r = fn(*a, **k)
        if hasattr(r, 'group') and hasattr(r, 'span'):      # a regex match object: compare what it matched
            return ('match', r.group(0))
        return round(r, 12) if isinstance(r, float) else r
    body.desc = '%s%r' % (getattr(fn, '__name__', 'f'), a)
    return body


def fill_schema_cache(n):
    c = U()._schema_valid_cache
    for i in range(n):
        c[('json/filler%02d.json' % i, None)] = True


def fill_doc_cache(n):
    c = U()._valid_against_schema_cache
    for i in range(n):
        c[('sample-jsons/filler%02d.json' % i, 'json/filler.json')] = True


def scenarios():
    a = athlib
    import jsonschema
    D4 = jsonschema.Draft4Validator
    hs = HS().score
    S = []

    def add(name, warm, bodies, tiers=('quick', 'thorough'), bound=(2, 2), atomic=(), opcodes=False):
        S.append(dict(name=name, warm=warm, bodies=bodies, tiers=tiers, bound=dict(quick=bound[0], thorough=bound[1]), atomic=atomic, opcodes=opcodes))

    if SET != 'C16':
        from checks import concsets
        concsets.build(SET, a, _call, add)
        return S
    sc, pf = a.athlon_score, a.athlon_performance_needed
    # S1 combined events
    add('S1 athlon score||score first-call', [], [_call(sc, 'M', '100', 10.5), _call(sc, 'F', 'HJ', 1.8)])
    add('S1 athlon score||score same args first-call', [], [_call(sc, 'M', '100', 10.5), _call(sc, 'M', '100', 10.5)], bound=(1, 2))
    add('S1 athlon score||performance first-call', [], [_call(sc, 'F', 'WT', 15.0), _call(pf, 'M', '60', 900)], bound=(1, 2))
    add('S1 athlon score||score warmed-up', [_call(sc, 'M', '100', 11)], [_call(sc, 'M', '100', 10.5), _call(sc, 'F', 'HJ', 1.8)], bound=(2, 3))
    add('S1 athlon score with age || score first-call', [], [_call(sc, 'M', '100', 12.5, 50), _call(sc, 'F', 'LJ', 4.5, 60)], bound=(1, 2))
    add('S1 athlon score with age || score with age, table warmed-up by a call without age', [_call(sc, 'M', '100', 11)],
        [_call(sc, 'M', '100', 12.5, 52), _call(sc, 'F', 'LJ', 4.8, 47)], bound=(2, 2))
    add('S1 athlon three threads first-call', [], [_call(sc, 'M', '100', 10.5), _call(pf, 'F', 'HJ', 1000), _call(sc, 'F', '800', 130.0)],
        bound=(1, 2))
    # ESAA option and veterans' alias rows (same shared coefficient rows, other code paths)
    add('S1 athlon ESAA 800||ESAA 800 first-call', [], [_call(sc, 'M', '800', 120.0, None, True), _call(sc, 'M', '800', 130.0, None, True)], bound=(1, 2))
    add('S1 athlon ESAA 800||ESAA 800 first ESAA use, table warmed-up', [_call(sc, 'M', '100', 11)],
        [_call(sc, 'M', '800', 120.0, None, True), _call(sc, 'M', '800', 130.0, None, True)], bound=(2, 2))
    add('S1 athlon ESAA 800||plain 800 first-call', [], [_call(sc, 'M', '800', 120.0, None, True), _call(sc, 'M', '800', 120.0)], bound=(1, 2))
    add('S1 athlon ESAA 800||plain 800 warmed-up', [_call(sc, 'M', '100', 11)], [_call(sc, 'M', '800', 120.0, None, True), _call(sc, 'M', '800', 120.0)], bound=(2, 3))
    add('S1 athlon ESAA 800||performance 800 warmed-up', [_call(sc, 'M', '100', 11)], [_call(sc, 'M', '800', 120.0, None, True), _call(pf, 'M', '800', 800)], bound=(2, 2))
    add('S1 athlon alias 80H||110H warmed-up', [_call(sc, 'M', '100', 11)], [_call(sc, 'M', '80H', 13.5, 60), _call(sc, 'M', '110H', 14.5)], bound=(1, 2))
    # S2 Hungarian
    add('S2 hungarian score||score first-call', [], [_call(hs, 'M', 'OUT', '100', 10.5), _call(hs, 'F', 'OUT', 'LJ', 6.5)], bound=(1, 2))
    add('S2 hungarian score||score warmed-up', [_call(hs, 'M', 'OUT', '200', 21)],
        [_call(hs, 'M', 'OUT', '100', 10.5), _call(hs, 'F', 'OUT', 'LJ', 6.5)], bound=(2, 3))
    add('S2 hungarian three threads, three (gender, in/out) parts, first-call', [],
        [_call(hs, 'M', 'OUT', '100', 10.0), _call(hs, 'F', 'OUT', '100', 11.5), _call(hs, 'F', 'OUT', '200', 23.0)], bound=(1, 1))
    add('S2 hungarian M OUT || F IN || M IN first-call', [], [_call(hs, 'M', 'OUT', '100', 10.0), _call(hs, 'F', 'IN', '60', 7.5), _call(hs, 'M', 'IN', '60', 7.0)], bound=(1, 1))
    add('S2 hungarian M || mixed gender X first-call', [], [_call(hs, 'M', 'OUT', '100', 10.5), _call(hs, 'X', 'OUT', 'LJ', 7.5)], bound=(1, 2))
    add('S2 hungarian X || X warmed-up', [_call(hs, 'M', 'OUT', '200', 21)], [_call(hs, 'X', 'OUT', '100', 10.5), _call(hs, 'X', 'IN', '60', 7.0)], bound=(1, 2))
    # S3 Sportshall
    ss = a.sportshall_score
    add('S3 sportshall||sportshall first-call', [], [_call(ss, 'SLJ', '1.50'), _call(ss, '100', '30.0')], tiers=('thorough',), bound=(1, 1))
    add('S3 sportshall||sportshall first-call, table build as one step', [], [_call(ss, 'SLJ', '1.50'), _call(ss, '100', '30.0')],
        bound=(2, 2), atomic=('athlib.sportshall_score', 'load_data'))
    # marks that carry float residue and sit on a table threshold (0.7 + 0.1 = 0.7999999999999999): whatever the first caller sets up for its own thread only
    # (a thread-local numeric context) is missing in the other thread
    add('S3 sportshall same event, marks with float residue, first-call, table build as one step', [],
        [_call(ss, 'SLJ', 0.7 + 0.1), _call(ss, 'SLJ', 0.1 + 0.7)], bound=(1, 2), atomic=('athlib.sportshall_score', 'load_data'))
    add('S3 sportshall marks with float residue, warmed-up by the main thread', [_call(ss, 'SHJ', '30')],
        [_call(ss, 'SLJ', 0.7 + 0.1), _call(ss, 'SP', 0.1 + 0.2)], bound=(1, 2))
    add('S3 sportshall||sportshall warmed-up', [_call(ss, 'SHJ', '30')], [_call(ss, 'SLJ', '1.50'), _call(ss, '100', '30.0')])
    # the same event / row in both threads (whatever is built lazily per event is built twice at once)
    add('S3 sportshall same event||same event, first use of that event, table loaded', [_call(ss, 'SHJ', '30')], [_call(ss, 'SLJ', '1.50'), _call(ss, 'SLJ', '1.75')],
        bound=(1, 2))
    add('S3 sportshall same timed event||same event, first use of that event, table loaded', [_call(ss, 'SHJ', '30')], [_call(ss, '100', '30.0'), _call(ss, '100', '27.5')],
        bound=(1, 2))
    add('S2 hungarian same event||same event warmed-up by another', [_call(hs, 'M', 'OUT', '200', 21)],
        [_call(hs, 'M', 'OUT', '100', 10.5), _call(hs, 'M', 'OUT', '100', 11.5)], bound=(1, 2))
    # S4 shared graders
    af, ag_, wb = a.wma_age_factor, a.wma_age_grade, a.wma_world_best
    aaf, aag = a.wma_athlon_age_factor, a.wma_athlon_age_grade
    # quick: rows at the top of the table keep the row scan (and so the number of scheduling points) short
    add('S4 wma_age_factor||wma_age_factor warmed-up, early rows', [_call(af, 'm', 40, '55H')], [_call(af, 'm', 50, '55H'), _call(af, 'f', 62, '60H')])
    add('S4 wma_age_factor same row||same row warmed-up, early rows', [_call(af, 'm', 40, '60H')], [_call(af, 'm', 50, '55H'), _call(af, 'm', 67, '55H')], bound=(1, 2))
    add('S4 wma_age_factor||wma_age_factor warmed-up', [_call(af, 'm', 40, 'HJ')], [_call(af, 'm', 50, 'HJ'), _call(af, 'f', 62, 'PV')], bound=(1, 2))
    add('S4 wma_age_factor||wma_age_factor first-call', [], [_call(af, 'm', 50, 'HJ'), _call(af, 'f', 62, 'PV')], bound=(1, 2))
    add('S4 wma_age_grade||wma_world_best warmed-up, early rows', [_call(af, 'm', 40, '55H')], [_call(ag_, 'm', 50, '55H', 9.0), _call(wb, 'f', '60H')])
    add('S4 wma_age_grade||wma_world_best warmed-up', [_call(af, 'm', 40, 'HJ')], [_call(ag_, 'm', 50, 'HJ', 1.8), _call(wb, 'f', 'LJ')], bound=(1, 2))
    add('S4 wma_athlon_age_factor||wma_athlon_age_grade warmed-up', [_call(aaf, 'M', 40, '100')],
        [_call(aaf, 'M', 50, '100'), _call(aag, 'f', 60, 'HJ', 1.4)])
    add('S4 interpolated distance || tabulated event warmed-up', [_call(af, 'm', 40, 'HJ')],
        [_call(af, 'm', 50, '55'), _call(af, 'f', 62, 'HJ')], bound=(1, 2))
    add('S4 interpolated || interpolated distances warmed-up', [_call(af, 'm', 40, 'HJ')], [_call(af, 'm', 50, '7K'), _call(af, 'f', 60, '11K')], bound=(1, 1))
    add('S4 interpolated factor || interpolated best warmed-up', [_call(af, 'm', 40, 'HJ')], [_call(af, 'm', 50, '2400'), _call(wb, 'f', '5.3M')], bound=(1, 1))
    add('S4 interpolated || interpolated same distance first-call', [], [_call(af, 'm', 50, '7K'), _call(ag_, 'm', 61, '7K', 1800.0)], bound=(1, 1))
    add('S4 mid-table pair warmed-up', [_call(af, 'm', 40, 'HJ')], [_call(af, 'm', 50, '5K'), _call(af, 'f', 71, 'MAR')],
        tiers=('thorough',), bound=(1, 1))
    add('S4 three threads on one grader warmed-up', [_call(af, 'm', 40, 'HJ')],
        [_call(af, 'm', 50, 'HJ'), _call(af, 'f', 62, 'PV'), _call(wb, 'm', 'LJ')], tiers=('thorough',), bound=(1, 2))
    # S8 the junior scoring functions (no shared state on the pinned tree; they are scoring functions all the same)
    ty, qk, bg = a.tyrving_score, a.qkids_score, a.bulgarian_score
    add('S8 tyrving same event hand-timed || automatic first-call', [], [_call(ty, 'F', 15, '100', '13.0'), _call(ty, 'F', 15, '100', '13.00')], bound=(2, 2))
    add('S8 tyrving same event hand-timed || automatic warmed-up', [_call(ty, 'F', 14, '100', '13.5')], [_call(ty, 'F', 15, '100', '13.0'), _call(ty, 'F', 15, '100', '13.00')], bound=(2, 2))
    add('S8 tyrving run || jump warmed-up', [_call(ty, 'F', 14, '100', '13.5')], [_call(ty, 'M', 16, '200', '24.5'), _call(ty, 'F', 13, 'HJ', 1.45)], bound=(1, 2))
    add('S8 qkids same event || same event first-call', [], [_call(qk, 'QKSEC', '100', 15.5), _call(qk, 'QKSEC', '100', '14.2')], bound=(2, 2))
    add('S8 qkids || qkids warmed-up', [_call(qk, 'QKSEC', '100', 15.5)], [_call(qk, 'QKSEC', '800', '2:50.0'), _call(qk, 'QKPRI', 'SLJ', 1.5)], bound=(1, 2))
    add('S8 bulgarian || bulgarian first-call', [], [_call(bg, 'U16', 'M', '100', 12.5), _call(bg, 'U16', 'F', 'LJ', 4.5)], bound=(1, 2))
    # S6 different graders (different table files) loading and working at the same time
    add('S6 athlon score with age || wma_age_factor first-call', [], [_call(sc, 'M', '100', 12.5, 52), _call(af, 'm', 52, '200')], bound=(1, 2))
    add('S6 wma_age_factor 2015 || 2023 first-call', [], [_call(af, 'm', 50, '55H', year=2015), _call(af, 'f', 62, '60H', year=2023)], bound=(1, 2))
    add('S6 wma_age_factor || wma_athlon_age_factor first-call', [], [_call(af, 'm', 50, '55H'), _call(aaf, 'M', 50, '100')], bound=(1, 2))
    add('S6 athlon score with age || wma_age_factor 2015 warmed-up', [_call(af, 'm', 40, '55H'), _call(sc, 'M', '100', 11, 40)],
        [_call(sc, 'M', '100', 12.5, 52), _call(af, 'm', 52, '60H', year=2015)], bound=(1, 2))
    # S5 validation caches at their size limit
    sv, va = U().schema_valid, U().valid_against_schema
    for n in (19, 20):
        add('S5 schema_valid||schema_valid distinct keys, cache at %d' % n, [lambda n=n: fill_schema_cache(n)],
            [_call(sv, 'json/athlete.json', D4), _call(sv, 'json/event.json', D4)], bound=(2, 3))
        add('S5 valid_against_schema||valid_against_schema distinct keys, cache at %d' % n, [lambda n=n: fill_doc_cache(n)],
            [_call(va, 'sample-jsons/athlete.json', 'json/athlete.json'), _call(va, 'sample-jsons/event.json', 'json/event.json')], bound=(1, 2))
    # two first validations against schemas that refer to other schema files (the resolver is involved), caches empty
    add('S5 valid_against_schema||valid_against_schema schemas with file references, caches empty', [],
        [_call(va, 'sample-jsons/event.json', 'json/event.json'), _call(va, 'sample-jsons/competition.json', 'json/competition.json')], tiers=('thorough',), bound=(2, 2))
    add('S5 valid_against_schema athlete||event (one schema with file references), caches empty', [],
        [_call(va, 'sample-jsons/athlete.json', 'json/athlete.json'), _call(va, 'sample-jsons/event.json', 'json/event.json')], bound=(2, 2))
    import glob
    race_docs = sorted(os.path.basename(f) for f in glob.glob(os.path.join(common.REPO, 'sample-jsons', 'race*.json')) if 'invalid' not in f)
    if race_docs:
        # race.json is the schema with references relative to itself ('#/definitions/...'): whatever resolves them keeps a scope while it works
        add('S5 valid_against_schema race||event (references relative to the schema itself), caches empty', [],
            [_call(va, 'sample-jsons/' + race_docs[0], 'json/race.json'), _call(va, 'sample-jsons/event.json', 'json/event.json')], bound=(2, 2))
        add('S5 valid_against_schema race||competition, resolver warmed-up by another validation', [_call(va, 'sample-jsons/athlete.json', 'json/athlete.json')],
            [_call(va, 'sample-jsons/' + race_docs[0], 'json/race.json'), _call(va, 'sample-jsons/competition.json', 'json/competition.json')], bound=(1, 2))
    # a cache hit racing with an insertion that evicts exactly that (most recent) entry
    add('S5 schema_valid hit||evicting insert, cache at 20', [lambda: fill_schema_cache(19), _call(sv, 'json/athlete.json', D4)],
        [_call(sv, 'json/athlete.json', D4), _call(sv, 'json/event.json', D4)], bound=(2, 3))
    add('S5 valid_against_schema hit||evicting insert, cache at 20',
        [lambda: fill_doc_cache(19), _call(va, 'sample-jsons/athlete.json', 'json/athlete.json')],
        [_call(va, 'sample-jsons/athlete.json', 'json/athlete.json'), _call(va, 'sample-jsons/event.json', 'json/event.json')], bound=(1, 2))
    add('S5 schema_valid||schema_valid equal keys, cache at 20', [lambda: fill_schema_cache(20)],
        [_call(sv, 'json/athlete.json', D4), _call(sv, 'json/athlete.json', D4)], bound=(2, 3))
    add('S5 schema_valid x3, cache at 19', [lambda: fill_schema_cache(19)],
        [_call(sv, 'json/athlete.json', D4), _call(sv, 'json/event.json', D4), _call(sv, 'json/race.json', D4)], tiers=('thorough',), bound=(1, 2))
    # S7 the warmed-up and cache scenarios once more with a scheduling point before every BYTECODE instruction executed inside athlib (a switch
    # inside one source line: `d[k] = f(x)`, `a, b = b, a`, augmented assignments), one pre-emption (thorough: two for the shortest)
    add('S7 opcode granularity: athlon score||score warmed-up', [_call(sc, 'M', '100', 11)], [_call(sc, 'M', '100', 10.5), _call(sc, 'F', 'HJ', 1.8)],
        bound=(1, 1), opcodes=True)
    add('S7 opcode granularity: athlon score with age || score warmed-up', [_call(sc, 'M', '100', 11, 40)], [_call(sc, 'M', '100', 12.5, 50), _call(sc, 'F', 'LJ', 4.5, 60)],
        bound=(1, 1), opcodes=True, tiers=('thorough',))
    add('S7 opcode granularity: hungarian warmed-up', [_call(hs, 'M', 'OUT', '200', 21)], [_call(hs, 'M', 'OUT', '100', 10.5), _call(hs, 'F', 'OUT', 'LJ', 6.5)],
        bound=(1, 1), opcodes=True)
    add('S7 opcode granularity: sportshall warmed-up', [_call(ss, 'SHJ', '30')], [_call(ss, 'SLJ', '1.50'), _call(ss, '100', '30.0')], bound=(1, 1), opcodes=True)
    add('S7 opcode granularity: wma_age_factor||wma_age_factor warmed-up, early rows', [_call(af, 'm', 40, '55H')], [_call(af, 'm', 50, '55H'), _call(af, 'f', 62, '60H')],
        bound=(1, 1), opcodes=True)
    add('S7 opcode granularity: schema_valid||schema_valid distinct keys, cache at 20', [lambda: fill_schema_cache(20)],
        [_call(sv, 'json/athlete.json', D4), _call(sv, 'json/event.json', D4)], bound=(2, 2), opcodes=True)
    add('S7 opcode granularity: schema_valid hit||evicting insert, cache at 20', [lambda: fill_schema_cache(19), _call(sv, 'json/athlete.json', D4)],
        [_call(sv, 'json/athlete.json', D4), _call(sv, 'json/event.json', D4)], bound=(1, 2), opcodes=True)
    add('S7 opcode granularity: valid_against_schema hit||evicting insert, cache at 20',
        [lambda: fill_doc_cache(19), _call(va, 'sample-jsons/athlete.json', 'json/athlete.json')],
        [_call(va, 'sample-jsons/athlete.json', 'json/athlete.json'), _call(va, 'sample-jsons/event.json', 'json/event.json')], bound=(1, 1), opcodes=True)
    return S


def build(sd):
    warm_snap = {}

    def reset():
        if 'snap' not in warm_snap:
            STATE.restore(PRISTINE)
            for w in sd['warm']:
                w()
            warm_snap['snap'] = STATE.capture() if sd['warm'] else PRISTINE
        STATE.restore(warm_snap['snap'])
    atomic = ()
    if sd['atomic']:
        m = common.mod(sd['atomic'][0])
        atomic = (getattr(m, sd['atomic'][1]).__code__,)
    return sched.Scenario(sd['name'], reset, sd['bodies'], [b.desc for b in sd['bodies']], atomic, opcodes=sd.get('opcodes', False)), warm_snap


def atomic_admissible(sd):
    """the compression of a frame to one step is admitted only if its code writes no global/attribute and a serial run of it leaves
    the shared state untouched"""
    import dis
    m = common.mod(sd['atomic'][0])
    fn = getattr(m, sd['atomic'][1])
    ops = {i.opname for i in dis.get_instructions(fn)}
    if ops & {'STORE_GLOBAL', 'DELETE_GLOBAL', 'STORE_ATTR', 'DELETE_ATTR'}:
        return False
    STATE.restore(PRISTINE)
    before = STATE.digest()
    fn()
    return STATE.digest() == before


def _work(chunk):
    idx, tier, alts, uncompressed = chunk
    sd = scenarios()[idx]
    if uncompressed:
        sd = dict(sd, atomic=(), bound=dict(quick=1, thorough=1))
    sc, _ = build(sd)
    ex = sched.Explorer(sc, sd['bound'][tier])
    for item in alts:
        ex.explore_item(item)
    return dict(execs=ex.execs, points=ex.points_total, outcomes=ex.outcomes, viol=ex.viol, by_bound=ex.by_bound, max_points=ex.max_points)


def run_scenario(idx, sd, tier, rep):
    t0 = time.time()
    if sd['atomic'] and not atomic_admissible(sd):
        # the frame writes shared state: no compression; the same threads at full granularity with one pre-emption instead (also in the quick tier)
        sd = dict(sd, atomic=(), bound=dict(quick=1, thorough=1), name=sd['name'] + ' [compression not admissible: full granularity]')
        rep.part(sd['name'], note='frame compression not admissible on this tree (the frame writes shared state)')
    sc, ws = build(sd)
    sched.opcode_monitor(bool(sd.get('opcodes')))
    try:
        return _run_scenario(idx, sd, tier, rep, sc, ws, t0)
    finally:
        sched.opcode_monitor(False)


def _run_scenario(idx, sd, tier, rep, sc, ws, t0):
    ex = sched.Explorer(sc, sd['bound'][tier])
    alts = ex.frontier()
    nchunks = max(1, min(len(alts), common.NPROC * 4))
    unc = bool(scenarios()[idx]['atomic']) and not sd['atomic']
    res = common.pmap(_work, [(idx, tier, alts[i::nchunks], unc) for i in range(nchunks)]) if alts else []
    execs, outcomes, by_bound, viol = ex.execs, dict(ex.outcomes), dict(ex.by_bound), list(ex.viol)
    maxp = ex.max_points
    points = ex.points_total
    for r in res:
        execs += r['execs']
        points += r['points']
        maxp = max(maxp, r['max_points'])
        for k, v in r['outcomes'].items():
            outcomes[k] = outcomes.get(k, 0) + v
        for k, v in r['by_bound'].items():
            by_bound[k] = by_bound.get(k, 0) + v
        viol.extend(r['viol'])
    bad_big = STATE.verify_big(ws.get('snap', PRISTINE))
    if bad_big:
        raise HarnessError('large shared tables were mutated in place during %s: %r' % (sd['name'], bad_big))
    # confirm each violation by replaying its exact schedule twice (same observations required)
    confirmed = 0
    for v in viol[:3]:
        full = []
        for k, c in v['choices']:
            while len(full) < k:
                full.append(0)
            full.append(c)
        r1 = ex.run_one(full, None).results
        r2 = ex.run_one(full, None).results
        if r1 != r2 or tuple(r1)[v['thread']] != v['got']:
            raise HarnessError('schedule replay is not deterministic in %s: %r / %r / %r' % (sd['name'], r1, r2, v['got']))
        confirmed += 1
    for v in viol[:3]:
        got, exp = v['got'], v['expected']
        what = 'deadlock' if v['deadlock'] else ('%s-instead-of-%s' % (got[1] if got[0] == 'exc' else ('None' if got[1] is None else 'value'),
                                                                     exp[1] if exp[0] == 'exc' else 'value'))
        sig = '%s:%s' % (sd['name'].split()[0] + ' ' + sd['name'].split()[1], what)
        rep.add_violation(Violation(sig, dict(scenario=sd['name'], threads=sc.describe, choices=v['choices'], schedule=v['schedule']),
                                    'thread %d (%s) got %r, alone it gives %r; %d pre-emption(s)' % (
                                        v['thread'], sc.describe[v['thread']], got, exp, v['preemptions'])))
    rep.part(sd['name'], executions=execs, bound=sd['bound'][tier], by_preemptions=by_bound, distinct_outcomes=len(outcomes),
             max_points=maxp, scheduling_points=points, violations=len(viol), replays_confirmed=confirmed, wall_s=round(time.time() - t0, 1),
             threads=sc.describe)
    if os.environ.get('VERIF_VERBOSE'):
        print('  %-70s execs=%-7d outcomes=%d viol=%d %.1fs' % (sd['name'], execs, len(outcomes), len(viol), time.time() - t0), file=sys.stderr)
    if len(rep.coverage['samples']) < 6:
        rep.sample(dict(scenario=sd['name'], threads=sc.describe, expected=[repr(e) for e in ex.expected], executions=execs))
    return execs, points, len(outcomes)


def run_set(tier):
    """the scenarios of SET, collected in an unfinished Report (vlib/concrun.py turns it into JSON for the check that asked)"""
    rep = Report(PID, tier, 'model_checking')
    tot_exec = tot_points = 0
    for idx, sd in enumerate(scenarios()):
        if tier not in sd['tiers']:
            continue
        r = run_scenario(idx, sd, tier, rep)
        if r:
            tot_exec += r[0]
            tot_points += r[1]
    STATE.restore(PRISTINE)
    return rep, tot_exec, tot_points


def run(tier):
    rep = Report(PID, tier, 'model_checking')
    tot_exec = tot_points = 0
    multi = 0
    only = os.environ.get('VERIF_C16_ONLY')          # debugging aid: run the scenarios whose name contains this text
    for idx, sd in enumerate(scenarios()):
        if tier not in sd['tiers'] or (only and only not in sd['name']):
            continue
        r = run_scenario(idx, sd, tier, rep)
        if not r:
            continue
        tot_exec += r[0]
        tot_points += r[1]
        multi += 1 if r[2] > 1 else 0
    STATE.restore(PRISTINE)
    c = rep.coverage
    c['states'] = tot_points          # scheduling points visited, summed over all executions
    c['transitions'] = tot_exec
    c['schedules_executed'] = tot_exec
    c['traces_validated_against_impl'] = tot_exec     # every schedule is an execution of the real code
    c['evaluations'] = tot_exec
    c['distinct_nontrivial'] = tot_exec
    c['rule'] = ('iterative context bounding: all schedules of the scenario threads with <= bound pre-emptions, scheduling points = every source line '
                 'executed inside athlib/ (sys.settrace), default = run to completion in id order; every execution runs to completion and is compared '
                 'with the single-threaded results')
    c['exhaustive'] = True
    rep.assumptions += ['a thread switch inside one source line is modelled only in the S7 scenarios (bytecode granularity, one pre-emption); the property states line granularity',
                        'threading.Lock/RLock created while athlib is imported are replaced by baton-aware locks; Condition/Event are not supported',
                        'shared state is restored generically before every execution (vlib/shared.py); large tables are checked for in-place mutation']
    if tot_exec < 1000:
        raise HarnessError('vacuous: only %d schedules' % tot_exec)
    return rep.finish()


def replay(rec):
    c = rec['case']
    SUFFIX = ' [compression not admissible: full granularity]'
    for sd in scenarios():
        if sd['name'] + SUFFIX == c['scenario']:
            sd = dict(sd, atomic=(), name=c['scenario'])
        if sd['name'] == c['scenario']:
            sched.opcode_monitor(bool(sd.get('opcodes')))
            sc, _ = build(sd)
            ex = sched.Explorer(sc, 99)
            full = []
            for k, ch in c['choices']:
                while len(full) < k:
                    full.append(0)
                full.append(ch)
            x = ex.run_one(full, None)
            print('scenario:', sd['name'])
            print('threads :', sc.describe)
            print('alone   :', ex.expected)
            print('schedule:', sched.compress(x))
            print('results :', x.results)
            return 1 if list(x.results) != list(ex.expected) else 0
    print('unknown scenario')
    return 2
