"""C03 - final placings follow countback and the jump-off result.   DESIGN.md 3/C03.
(a) monitor on every terminal state reached by the hjmc BFS; (b) round-structured deep enumeration of complete
competitions (every legal attempt string per height, every rule-conforming jump-off continuation)."""
import time
from vlib import common, hjmc
from vlib.common import Report, Violation, HarnessError
from checks import hjcommon

PID = 'C03'
QUICK_DEEP = [(2, 3, 2)]
QUICK_TIED = [(3, 2, 2), (2, 2, 3)]
QUICK_JOLONG = [(3, 4, (0, -1, 1)), (2, 6, (0, -1, 1)), (4, 3, (0, -1)), (3, 5, (0, -1)), (4, 4, (0,))]
THOROUGH_JOLONG = [(3, 5, (0, -1, 1)), (2, 8, (0, -1, 1)), (4, 4, (0, -1, 1)), (3, 7, (0, -1)), (4, 5, (0, -1)), (5, 3, (0, -1))]
THOROUGH_DEEP = [(2, 3, 3), (2, 4, 1), (3, 2, 2), (4, 1, 2)]
THOROUGH_TIED = [(3, 2, 3), (4, 2, 2), (3, 3, 2)]


def run(tier):
    common.bind_repo()
    rep = Report(PID, tier, 'model_checking')
    bl = hjcommon.QUICK_BOUNDS[:4] if tier == 'quick' else hjcommon.THOROUGH_BOUNDS      # the deep and tied enumerations below go further
    hjcommon.explore(rep, ('C03',), bl, ('C03',))
    hjcommon.explore_codecs(rep, ('C03',), tier, ('C03',))
    hjcommon.probe_long_cards(rep, ('C03',))
    deep = QUICK_DEEP if tier == 'quick' else THOROUGH_DEEP
    dt = dict(nodes=0, leaves=0, terminal_checked=0, jumpoffs=0)
    for (n, R, J) in deep:
        t0 = time.time()
        tot, viol = hjmc.deep_enumerate(n, R, J)
        for k in dt:
            dt[k] += tot[k]
        rep.part('deep (%d athletes, %d regular, %d jump-off heights)' % (n, R, J), wall_s=round(time.time() - t0, 1), **tot)
        for sig, hist, msg in viol:
            rep.add_violation(Violation(sig, dict(bounds=[n, R, J], history=hjmc.fmt_hist(hist)), msg))
    for (n, R, J) in (QUICK_TIED if tier == 'quick' else THOROUGH_TIED):
        t0 = time.time()
        tot, viol = hjmc.tied_enumerate(n, R, J)
        for k in dt:
            dt[k] += tot[k]
        rep.part('tie-focused (%d athletes, %d regular, %d jump-off heights)' % (n, R, J), wall_s=round(time.time() - t0, 1), **tot)
        for sig, hist, msg in viol:
            rep.add_violation(Violation(sig, dict(bounds=[n, R, J], history=hjmc.fmt_hist(hist)), msg))
    # larger fields: every multiset of n cards from the reduced card set
    for (n, R, nc, per) in ([(4, 2, None, 1), (5, 1, None, 1), (6, 1, None, 1), (3, 2, None, 2)] if tier == 'quick' else
                            [(4, 2, None, 1), (5, 2, None, 1), (4, 3, None, 1), (6, 1, None, 1), (6, 2, 12, 1), (7, 1, None, 1), (4, 2, None, 2), (3, 3, None, 2)]):
        t0 = time.time()
        tot, viol = hjmc.placing_enumerate(n, R, nc, per)
        for k in dt:
            dt[k] += tot[k]
        rep.part('larger fields (%d athletes, %d regular heights + a closing one, %s reduced cards, %d per signature)' % (n, R, tot['reduced_cards'], per), wall_s=round(time.time() - t0, 1), **tot)
        for sig, hist, msg in viol:
            rep.add_violation(Violation(sig, dict(bounds=[n, R + 1, 1], history=hjmc.fmt_hist(hist)), msg))
    # larger fields once more with the bars passed as binary floats less than a centimetre apart (three heights and the closing one: two different bests 5 mm apart)
    for (n, R, nc, per), codec in ([((2, 3, None, 1), 'float-mm'), ((3, 2, None, 1), 'float-mm')] if tier == 'quick' else
                                   [((2, 3, None, 2), 'float-mm'), ((3, 3, None, 1), 'float-mm'), ((4, 2, None, 1), 'float-mm'), ((2, 3, None, 1), 'float-cm')]):
        t0 = time.time()
        hjmc.set_codec(codec)
        try:
            tot, viol = hjmc.placing_enumerate(n, R, nc, per)
        finally:
            hjmc.set_codec(None)
        for k in dt:
            dt[k] += tot[k]
        rep.part('larger fields (%d athletes, %d regular heights + a closing one, %s reduced cards), heights passed as %s' % (n, R, tot['reduced_cards'], codec), wall_s=round(time.time() - t0, 1), **tot)
        for sig, hist, msg in viol:
            rep.add_violation(Violation(sig + ':heights-as-%s' % codec, dict(bounds=[n, R + 1, 1], history=hjmc.fmt_hist(hist), codec=codec), msg))
    # larger fields once more with the competition's diagnostic flag on (verbose=1: the ranking prints what it does)
    for (n, R, nc, per) in ([(3, 2, None, 1)] if tier == 'quick' else [(3, 2, None, 2), (4, 2, None, 1), (3, 3, None, 1)]):
        t0 = time.time()
        hjmc.COMP_OPTS['verbose'] = 1
        try:
            tot, viol = hjmc.placing_enumerate(n, R, nc, per)
        finally:
            hjmc.COMP_OPTS.clear()
        for k in dt:
            dt[k] += tot[k]
        rep.part('larger fields (%d athletes, %d regular heights + a closing one, %s reduced cards), verbose flag on' % (n, R, tot['reduced_cards']), wall_s=round(time.time() - t0, 1), **tot)
        for sig, hist, msg in viol:
            rep.add_violation(Violation(sig + ':heights-as-opt:verbose', dict(bounds=[n, R + 1, 1], history=hjmc.fmt_hist(hist), codec='opt:verbose'), msg))
    # many heights: pairs of long cards (up to 14 failures before the best height) plus an also-ran
    t0 = time.time()
    R9 = 9 if tier == 'quick' else 11
    lc = hjmc.long_cards(R9)
    ar = [tuple(['o', 'xxx'] + [''] * (R9 - 2))]
    tot, viol = hjmc.placing_enumerate(2, R9, cards=lc, also_ran=ar)
    for k in dt:
        dt[k] += tot[k]
    rep.part('many heights (%d): pairs of %d long cards + an also-ran' % (R9, len(lc)), wall_s=round(time.time() - t0, 1), **tot)
    for sig, hist, msg in viol:
        rep.add_violation(Violation(sig, dict(bounds=[3, R9 + 1, 1], history=hjmc.fmt_hist(hist)), msg))
    # the tie-focused enumeration once more with the heights passed as binary floats / two-place Decimals at 1 cm steps
    for (n, R, J), codec in ([((3, 2, 2), 'float-cm'), ((2, 2, 1), 'float-mm')] if tier == 'quick' else [((3, 2, 2), 'float-cm'), ((3, 2, 2), 'decimal-cm'), ((2, 3, 2), 'float-cm'), ((3, 2, 2), 'float-mm')]):
        t0 = time.time()
        hjmc.set_codec(codec)
        try:
            tot, viol = hjmc.tied_enumerate(n, R, J)
        finally:
            hjmc.set_codec(None)
        for k in dt:
            dt[k] += tot[k]
        rep.part('tie-focused (%d athletes, %d regular, %d jump-off heights), heights passed as %s' % (n, R, J, codec), wall_s=round(time.time() - t0, 1), **tot)
        for sig, hist, msg in viol:
            rep.add_violation(Violation(sig + ':heights-as-%s' % codec, dict(bounds=[n, R, J], history=hjmc.fmt_hist(hist), codec=codec), msg))
    for (n, J, deltas) in (QUICK_JOLONG if tier == 'quick' else THOROUGH_JOLONG):
        t0 = time.time()
        tot, viol = hjmc.jo_long(n, J, deltas)
        for k in dt:
            dt[k] += tot[k]
        rep.part('long jump-off (%d athletes tied, up to %d rounds, bar moves %r)' % (n, J, list(deltas)), wall_s=round(time.time() - t0, 1), **tot)
        for sig, hist, msg in viol:
            rep.add_violation(Violation(sig, dict(bounds=[n, 2, J], history=hjmc.fmt_hist(hist)), msg))
    if not dt['jumpoffs'] or not dt['terminal_checked']:
        raise HarnessError('vacuous deep enumeration: %r' % dt)
    c = rep.coverage
    c['deep_nodes'] = dt['nodes']
    c['deep_complete_competitions'] = dt['leaves']
    c['deep_terminal_states_checked'] = dt['terminal_checked']
    c['deep_jumpoffs_entered'] = dt['jumpoffs']
    c['states'] += dt['nodes']
    c['transitions'] += dt['nodes']
    c['evaluations'] += dt['terminal_checked']
    c['distinct_nontrivial'] += dt['terminal_checked']
    c['rule'] = ('(a) every terminal (won/finished/drawn) core state of the BFS; (b) DFS over result cards: each regular height is a round, every '
                 'active athlete takes every legal attempt string (13 when no failures are carried), round-robin feeding, then every jump-off '
                 'continuation (bar up/same/down x each alive participant o/x/r); (c) tie-focused: all but one athlete share every legal single-athlete card, the last takes every card, then every jump-off continuation; (d) long jump-offs: n athletes tied on a clean card, every rule-conforming jump-off of up to 8 rounds with a restricted bar menu; places, bests and ranking shape recomputed from the cards alone')
    c['exhaustive'] = True
    c['bounds'] = dict(bfs=[list(b) for b in bl], deep=[list(b) for b in deep], tied=[list(b) for b in (QUICK_TIED if tier == 'quick' else THOROUGH_TIED)])
    rep.assumptions += ['jump-off continuations follow the rules: every participant jumps or retires before the bar moves (the property quantifier)',
                        'members of the tied group other than the survivor may hold any place 2..|T| (the statement fixes no order among them)',
                        'no-height ties: unplaced athletes, either finished or jump-off accepted']
    return rep.finish()


def replay(rec):
    return hjcommon.replay_history(rec, ('C03',))
