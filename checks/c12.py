"""C12 - performance validation returns plausible, well-formed marks or the given error.   DESIGN.md 3/C12.
Event codes (one representative per family x distance class from the generated language, plus customary names) x texts from a grammar of
plausible and implausible entries x gender x precision x error class."""
import re, itertools, math
from fractions import Fraction
from decimal import Decimal
from vlib import concpass
from checks import crossapi
from vlib import common, rxmc
from vlib.common import Report, Violation, HarnessError, Acc, pmap, merge
from checks import c10

PID = 'C12'
_G = {}
CUSTOMARY = ['100m', '200m', '110mH', '400mH', '5K road', '10K road', 'XC', 'xc', 'MAR', 'HM', 'MILE', '1500m']
FIELDS = ['0', '00', '1', '7', '12', '45', '59', '60', '61', '93', '99']
FIELDS_BIG = ['100', '104', '999']
DECS = ['', '0', '5', '05', '99', '999']
JUNK = ['%', '%s', '12.5%', '1:2%d', '%(x)s', '{}', '{0}', '12{', '\\', '$1', '1\x00', "1'", '', ' ', 'abc', '1a', '-5', '1:2:3:4', '1::2', ':', '.', '1.2.3', '1,2,3', '1e3', 'DNF', 'NT', '１２', '٣', '1:', ':1', '1 2', '12:', '1:2:', 'inf', 'nan', '0x10']
GENDERS = ['all', 'm', 'f', 'M', 'x', '', 'W', 'Female']
PRECS = [None, 0, 1, 2, 3]


class CustomError(Exception):
    pass


class OneArgError(Exception):
    """an application error class whose constructor takes exactly the message"""
    def __init__(self, message):
        super().__init__(message)
        self.message = message


class KeywordError(Exception):
    """... and one that insists on text and offers an optional field name"""
    def __init__(self, message, field=None):
        if not isinstance(message, str):
            raise TypeError('message must be text, got %r' % (message,))
        super().__init__(message)


KLASSES = {k.__name__: k for k in (ValueError, CustomError, OneArgError, KeywordError)}


def setup(tier):
    if _G:
        return _G
    P = rxmc.load_patterns()
    A = rxmc.Alphabet(P)
    L, nsk = rxmc.enumerate_language(A, P['PAT_EVENT_CODE'], pairs=False)
    U = common.mod('athlib.utils')
    # representatives: first code per (family vector, distance class, upper/lower case, carries a weight/spec)
    reps = {}
    for c in L:
        if c != c.strip() or any(ch.isspace() for ch in c) or not c.isascii():
            continue
        fam = tuple(P[f].match(c) is not None for f in ('PAT_TRACK', 'PAT_HURDLES', 'PAT_ROAD', 'PAT_RELAYS', 'PAT_JUMPS', 'PAT_THROWS', 'PAT_MULTI',
                                                         'PAT_RACES_FOR_DISTANCE', 'PAT_HIGHSCORING_EVENT', 'PAT_LOWSCORING_EVENT'))
        try:
            d = U.get_distance(c)
        except Exception:
            d = None
        dc = None if d is None else 0 if d == 0 else 1 if d <= 200 else 2 if d <= 400 else 3 if d < 800 else 4 if d < 5000 else 5
        key = (fam, dc, c == c.upper(), any(ch.isdigit() for ch in c) and fam[5])
        if key not in reps:
            reps[key] = c
    codes = list(dict.fromkeys(list(reps.values()) + CUSTOMARY + ['HJ', 'PV', 'LJ', 'TJ', 'SP', 'DT', 'HT', 'JT', 'WT', 'DEC', 'HEP', 'PEN',
                                                                 '100', '200', '400', '800', '1500', '3000', '5000', '10000', '110H', '400H', '3000SC', '4x100', '4x400',
                                                                 '24HR', 'T30', 'H1', 'L2', 'BAL']))
    # an accepted code may still carry its line terminator ('$' matches before a final line feed)
    codes += [c + '\n' for c in ('HJ', 'DT1.5K', '100', '800', 'MAR', '5K', '4x100', 'DEC', 'HEP', '3000SC') if P['PAT_EVENT_CODE'].match(c + '\n')]
    _G.update(P=P, codes=codes, U=U)
    return _G


def texts(tier):
    T = []
    fields = FIELDS if tier == 'quick' else FIELDS + ['2', '9', '10', '30']
    for nf in (1, 2, 3):
        for fs in itertools.product(fields, repeat=nf):
            if tier == 'quick' and nf == 3 and (fs[0] not in ('0', '00', '1', '7', '12') or fs[1] not in ('0', '00', '7', '45', '59', '60', '99')):
                continue
            for d in DECS:
                for sep in (':', ';') if nf > 1 else (':',):
                    for mark in ('.', ',') if d else ('',):
                        T.append(sep.join(fs) + (mark + d if d else ''))
    for f in FIELDS_BIG:
        for d in ('', '5', '80'):
            T.append(f + ('.' + d if d else ''))
            T.append('1:' + f + ('.' + d if d else ''))
            T.append(f + ':00')
    T += [' 12.5 ', '\t1:02.5', '12.5\n', '0:45.5', '00:45.5', '0:0:45', '1.02.5', '2.33', '4:05:33', '81:93', '1:59.999', '59.999', '104.80', '9.58', '19.19', '3:26.00',
          '2:01:39', '12:37.35', '26:11', '63:40', '63.40', '45.1', '2.45', '8.95', '9000', '8967', '10000', '99999']
    T += JUNK
    # very long digit runs (a float of them is inf or 0.0)
    T += ['2' + '0' * 308, '9' * 400, '1:00:' + '2' + '0' * 308, '1:' + '9' * 320, '0.' + '0' * 400 + '1', '12.' + '3' * 400, '0' * 400 + '12.5', '1' + '0' * 30]
    return list(dict.fromkeys(T))


TIMED_RE = re.compile(r'^(?:(\d+):(\d{1,2}):(\d{1,2})|(\d+):(\d{1,2})|(\d{1,2}))(\.\d+)?$')


def exact_seconds(t):
    v = Fraction(0)
    for f in t.split(':'):
        v = v * 60 + Fraction(Decimal(f))
    return v


def classify(G, code):
    """timed / field / multi / other, decided by the patterns (not by the function under test)"""
    P = G['P']
    cu = code.split()[0] if code.split() else code
    if P['PAT_RACES_FOR_DISTANCE'].match(cu) or P['PAT_HIGHSCORING_EVENT'].match(cu) or P['PAT_LOWSCORING_EVENT'].match(cu):
        return 'other'
    if P['PAT_FIELD'].match(cu):
        return 'field'
    if P['PAT_MULTI'].match(cu):
        return 'multi'
    if P['PAT_TIMED_EVENT'].match(cu) or cu in ('100m', '200m', '110mH', '400mH', '1500m'):
        return 'timed'
    return 'other'


def check_one(G, acc, code, text, gender, prec, klass):
    U = G['U']
    acc.n += 1
    case = dict(event=code, text=text, gender=gender, prec=prec, error_class=klass.__name__)
    kw = dict(gender=gender, errorKlass=klass)
    if prec is not None:
        kw['prec'] = prec
    try:
        r = U.check_performance_for_discipline(code, text, **kw)
    except klass as e:
        if type(e) is not klass and klass is CustomError:
            acc.bad('raises-subclass', case, repr(e))
        return
    except Exception as e:
        acc.bad('raises-%s-instead-of-the-given-class:%s' % (type(e).__name__, classify(G, code)), case, 'raised %r, errorKlass=%s' % (e, klass.__name__))
        return
    if not isinstance(r, str):
        acc.bad('result-not-a-string', case, 'returned %r' % (r,))
        return
    kind = classify(G, code)
    if kind == 'timed' and not (code.lower() == 'xc' and r == ''):
        m = TIMED_RE.match(r)
        if not m:
            acc.bad('timed-result-malformed', case, 'returned %r' % (r,))
            return
        h, mm, ss, m2, s2, s1, dec = m.groups()
        ok = (int(mm) < 60 and int(ss) < 60) if h is not None else (int(s2) < 60 if m2 is not None else True)
        if not ok:
            acc.bad('timed-result-field-not-below-60:%s' % ('seconds' if (h is None and int(s2) >= 60) or (h is not None and int(ss) >= 60) else 'minutes'), case, 'returned %r' % (r,))
            return
        if m2 is None and h is None and int(s1) >= 60 and False:
            pass
        try:
            dist = U.get_distance(code)
        except Exception:
            dist = None
        secs = exact_seconds(r)
        if dist and secs > 0:
            v = Fraction(dist) / secs
            lim = 11 if dist <= 400 else 10
            if v > lim * (1 + Fraction(1, 10 ** 9)):
                acc.bad('timed-result-too-fast', case, 'returned %r for %s m: %.2f m/s' % (r, dist, float(v)))
                return
            if v < Fraction(1, 2) * (1 - Fraction(1, 10 ** 9)):
                acc.bad('timed-result-too-slow', case, 'returned %r for %s m: %.3f m/s' % (r, dist, float(v)))
                return
    elif kind == 'field':
        if not re.match(r'^\d+\.\d\d$', r):
            acc.bad('field-result-not-two-decimals', case, 'returned %r' % (r,))
            return
        rec = U.field_event_record(code.upper()[:3] if code.upper()[:3] in ('SHJ', 'SLJ', 'STJ') else re.match(r'^[A-Za-z]+', code).group().upper(),
                                   gender if gender.lower() in ('m', 'f') else 'all')
        if rec and float(r) > rec * 1.2 + 1e-9:
            acc.bad('field-result-absurdly-beyond-record', case, 'returned %r, record %.2f' % (r, rec))
            return
    elif kind == 'multi':
        if not re.match(r'^-?\d+$', r) or not int(r) < 10000:
            acc.bad('multi-result-not-an-integer-below-10000', case, 'returned %r' % (r,))
            return
    # idempotence
    try:
        r2 = U.check_performance_for_discipline(code, r, **kw)
    except Exception as e:
        acc.bad('returned-value-not-accepted-again:%s' % kind, case, 'returned %r, validating that again raised %r' % (r, e))
        return
    if r2 != r:
        acc.bad('returned-value-changes-when-validated-again:%s' % kind, case, 'returned %r, validating that again gives %r' % (r, r2))
        return
    acc.nontrivial += 1
    if len(acc.samples) < 1 and kind == 'timed' and ':' in r:
        acc.samples.append(dict(case, result=r))


def work(chunk):
    tier, codes = chunk
    G = setup(tier)
    T = texts(tier)
    acc = Acc()
    for code in codes:
        for text in T:
            for gi, gender in enumerate(GENDERS):
                for pi, prec in enumerate(PRECS):
                    for klass in (ValueError, CustomError, OneArgError, KeywordError):
                        # full cross product on the first gender/prec; other genders and precisions with one error class each
                        if (gi and pi) or (gi and klass is ValueError) or (pi and klass is CustomError and tier == 'quick'):
                            continue
                        if klass in (OneArgError, KeywordError) and (gi or pi):      # constructor contracts: default gender and precision
                            continue
                        check_one(G, acc, code, text, gender, prec, klass)
    return acc.pack()


HIST_CODES = ['MAR', 'Mar', 'mar', 'HM', 'hm', 'MILE', 'mile', '100m', '100M', '100', '60m', '60M', '5K', '5k', '5K road', '10K', '10k', 'XC', 'xc', '400', '400m', '400M',
              '800', '1500', '3000', 'HJ', 'hj', 'DT', 'dt', 'DT1.5K', 'SP', 'sp', 'DEC', 'dec', '4x100', '4X100', 'T30', 't30', 'H1', 'h1']
HIST_TEXTS = ['10.5', '12', '58.01', '1:02.5', '2:03:59', '4.05', '45.67', '5875', '27:50', '9.58', '12:00']


def outcome(U, code, text, prec=None):
    kw = dict(errorKlass=CustomError)
    if prec is not None:
        kw['prec'] = prec
    try:
        return ('ret', U.check_performance_for_discipline(code, text, **kw))
    except Exception as e:
        return ('exc', type(e).__name__)


def history_work(chunk):
    """the outcome of validating (code, text) must not depend on what was validated before it in the process"""
    from vlib import shared
    firsts, = chunk
    G = setup('quick')
    U = G['U']
    st = shared.SharedState('athlib')
    pristine = st.capture()
    acc = Acc()
    probes = [(c, t) for c in HIST_CODES for t in HIST_TEXTS]
    alone = {}
    for p in probes:
        st.restore(pristine)
        alone[p] = outcome(U, *p)
    for c1 in firsts:
        for t1 in ('10.5', '2:03:59', '12:00'):
            for p in probes:
                acc.n += 1
                st.restore(pristine)
                outcome(U, c1, t1)
                got = outcome(U, *p)
                if got != alone[p]:
                    acc.bad('outcome-depends-on-earlier-validation', dict(first=[c1, t1], then=list(p)),
                            'after validating %r for %r, (%r, %r) gives %r; alone it gives %r' % (t1, c1, p[0], p[1], got, alone[p]))
                else:
                    acc.nontrivial += 1
    st.restore(pristine)
    if not acc.samples:
        acc.samples.append(dict(first=[firsts[0], '10.5'], then=['MAR', '10.5'], outcome=list(alone[('MAR', '10.5')])))
    return acc.pack()

DENSE_CODES = ['60', '100', '200', '400', '800', '1500', '3000', '5000', '10000', 'MAR', 'XC', 'MILE', '110H', '400H', '4x100', '4x400', '3000W', '20KW', '100m', '5K', 'HM', '3000SC',
               'HJ', 'SP', 'JT', 'DEC']


def dense_work(chunk):
    """every VALUE of the fields for a few codes of every distance class: mm:ss for mm, ss in 0..99 (and minutes 100..119), one field 0..199, h:mm:ss over
    seven hour values x every minute x five second values, with a few decimal tails - the special cases keyed on particular field values"""
    tier, code = chunk
    G = setup(tier)
    acc = Acc()
    tails = ['', '.5', '.05'] if tier == 'quick' else ['', '.5', '.05', '.999', '.1234', ',5']
    for mm in list(range(0, 100)) + [100, 104, 119]:
        for ss in range(0, 100):
            for tl in tails:
                check_one(G, acc, code, '%d:%02d%s' % (mm, ss, tl), 'all', None, CustomError)
        for ss in (0, 5, 9):
            check_one(G, acc, code, '%d:%d.3' % (mm, ss), 'all', None, CustomError)      # one-digit seconds with a fraction
    for f in range(0, 200):
        for tl in tails + ['.999', '.1234']:
            check_one(G, acc, code, '%d%s' % (f, tl), 'all', None, CustomError)
            check_one(G, acc, code, '%d%s' % (f, tl), 'f', 2, CustomError)
    for h in (0, 1, 2, 9, 10, 23, 99):
        for mm in range(0, 62):
            for ss in (0, 7, 30, 59, 60):
                for tl in ('', '.5'):
                    check_one(G, acc, code, '%d:%02d:%02d%s' % (h, mm, ss, tl), 'all', None, CustomError)
                    if mm < 10:
                        check_one(G, acc, code, '%d:%d:%d%s' % (h, mm, ss, tl), 'all', 1, CustomError)
    for t in ('1: 02.5', '1 :02.5', ' 1:02.5 ', '1:02 .5', '12 .5', '1:02.5s', '12.5s', '12.5 s', '2m03', "2'03.5", '−12.5', '１２.5', '12：30', '+12.5', '12.5+', '1e1', '0x1F', '12.50000000001'):
        check_one(G, acc, code, t, 'all', None, CustomError)
        check_one(G, acc, code, t, 'all', None, ValueError)
    return acc.pack()


def fmt_thousandths(n):
    """a duration of n thousandths of a second written the customary way: s.ddd, m:ss.ddd or h:mm:ss.ddd"""
    s, ms = divmod(n, 1000)
    if s < 60:
        return '%d.%03d' % (s, ms)
    m, s = divmod(s, 60)
    if m < 60:
        return '%d:%02d.%03d' % (m, s, ms)
    h, m = divmod(m, 60)
    return '%d:%02d:%02d.%03d' % (h, m, s, ms)


def boundary_work(chunk):
    """acceptance boundaries located by bisection on the real function, then every text on the 0.001 grid in a window around each boundary
    (with 3, 2 and 1 decimals) x precision goes through check_one: the limit clauses and idempotence at the edges of the sanity limits"""
    tier, codes = chunk
    G = setup(tier)
    U = G['U']
    acc = Acc()
    W = 40 if tier == 'quick' else 120          # half-width of the window in thousandths
    nb = 0

    def acc_ok(code, text, gender):
        try:
            U.check_performance_for_discipline(code, text, gender=gender, errorKlass=CustomError)
            return True
        except Exception:
            return False
    for code in codes:
        kind = classify(G, code)
        if kind not in ('timed', 'field'):
            continue
        for gender in GENDERS:
            if kind == 'field':
                fmt = lambda n: '%d.%03d' % divmod(n, 1000)
                ladder = [int(1000 * 1.25 ** k) for k in range(0, 32)]           # 1 m .. ~1000 m
            else:
                fmt = fmt_thousandths
                ladder = [int(1000 * 1.35 ** k) for k in range(0, 44)]           # 1 s .. ~110 h
            oks = [acc_ok(code, fmt(n), gender) for n in ladder]
            edges = []
            for i in range(len(ladder) - 1):
                if oks[i] != oks[i + 1]:
                    lo, hi = ladder[i], ladder[i + 1]
                    while hi - lo > 1:
                        mid = (lo + hi) // 2
                        if acc_ok(code, fmt(mid), gender) == oks[i]:
                            lo = mid
                        else:
                            hi = mid
                    edges.append(hi)
            for e in edges:
                nb += 1
                for n in range(max(1, e - W), e + W + 1):
                    t3 = fmt(n)
                    forms = [t3]
                    if n % 10 == 0:
                        forms.append(t3[:-1])
                    if n % 100 == 0:
                        forms.append(t3[:-2])
                    for text in forms:
                        for prec in (PRECS if gender == GENDERS[0] else PRECS[:1]):
                            check_one(G, acc, code, text, gender, prec, CustomError)
    acc.add('boundaries', nb)
    if not acc.samples and codes:
        acc.samples.append(dict(event=codes[0], boundaries=nb))
    return acc.pack()


def run(tier):
    common.bind_repo()
    rep = Report(PID, tier, 'exploration')
    G = setup(tier)
    codes = G['codes']
    T = texts(tier)
    merge(rep, pmap(work, [(tier, codes[i::64]) for i in range(64)]), part='%d event codes x %d texts x gender/precision/error-class combinations' % (len(codes), len(T)))
    merge(rep, pmap(history_work, [([c],) for c in HIST_CODES]), part='call-order histories: %d codes (case / suffix spellings) x 3 texts, then %d probes, vs the probe alone from a restored state' % (
        len(HIST_CODES), len(HIST_CODES) * len(HIST_TEXTS)))
    merge(rep, pmap(dense_work, [(tier, c) for c in DENSE_CODES]), part='dense field values: %d codes x every mm:ss (0..99 x 0..99), every single field 0..199, h:mm:ss over 7 hours x 62 minutes x 5 seconds, odd punctuation' % len(DENSE_CODES))
    tb = merge(rep, pmap(boundary_work, [(tier, codes[i::64]) for i in range(64)]),
               part='acceptance boundaries (bisection on a geometric ladder of marks), every 0.001 step in a window around each, x decimals x precision')
    if tb['extra'].get('boundaries', 0) < 100:
        raise HarnessError('vacuous boundary pass: %r' % (tb['extra'],))
    c = rep.coverage
    c['event_codes'] = len(codes)
    c['texts'] = len(T)
    c['rule'] = ('event codes = first code of the generated language per (family vector, distance class, case, weight-specific) + customary names; texts = 1-3 fields over a '
                 'field set x decimals x separators x decimal marks + over-range fields + junk; gender x precision x {ValueError, custom class} (full product on the default '
                 'gender/precision, one error class on the others); non-trivial = accepted entries that satisfy every output clause')
    c['exhaustive'] = True
    rep.assumptions += ['kind of an event (timed/field/multi/other) is decided by the patterns, not by the function under test',
                        'speed limits 0.5..11 m/s up to 400 m, 0.5..10 m/s beyond, on the distance get_distance reports',
                        'fixed-duration races and custom scoring events: only string-or-given-error and idempotence are asserted']
    if len(codes) < 60:
        raise HarnessError('vacuous: %d codes' % len(codes))
    crossapi.part(rep, PID, tier)
    concpass.part(rep, PID, tier)
    return rep.finish()


def replay(rec):
    if concpass.is_conc(rec):
        return concpass.replay(rec)
    G = setup('quick')
    c = rec['case']
    klass = KLASSES.get(c['error_class'], ValueError)
    kw = dict(gender=c['gender'], errorKlass=klass)
    if c['prec'] is not None:
        kw['prec'] = c['prec']
    try:
        print('->', repr(G['U'].check_performance_for_discipline(c['event'], c['text'], **kw)))
    except Exception as e:
        print('raised', type(e).__name__, e)
    print(rec['sig'], '-', rec['msg'])
    return 1
