"""C15 - WMA interpolation between distances is order-preserving.   DESIGN.md 3/C15.
Every whole-metre distance 20 m..400 km as a bare number (quick: every metre to 30 km, windows around every tabulated distance
and mile seam, 1 km steps beyond) and the road spellings N[.d]K / N[.d]M x gender x ages across the table x both table years:
factor within the hull of the bracketing rows, best within theirs and increasing with distance, ends of the table do not fail."""
import json, os, math
from checks import crossapi
from vlib import common
from vlib import orderpass
from vlib.common import Report, Violation, HarnessError, Acc, pmap, merge
from checks import c14

PID = 'C15'
EPS = 1e-12


def run_rows(data, g):
    rows = data[g]
    i = [r[0] for r in rows].index('50')
    return rows[i:]


def distances(tier, rows):
    if tier == 'thorough':
        return list(range(20, 400001))
    S = set(range(20, 30001))
    for r in rows:
        m = int(round(r[1] * 1000))
        S.update(range(max(20, m - 60), m + 61))
    for n in range(1, 250):
        for k in (1609, 1609.344):
            m = int(n * k)
            S.update(range(max(20, m - 5), m + 6))
    S.update(range(30000, 400001, 1000))
    S.update(range(199900, 200200))
    return sorted(S)


def spellings(tier):
    out = []
    step = 1 if tier == 'thorough' else 5
    for t in range(1, 4001, step):            # 0.1K .. 400K
        out.append('%gK' % (t / 10.0))
    for t in range(1, 2491, step):            # 0.1M .. 249M
        out.append('%gM' % (t / 10.0))
    for base in (5, 10, 21.09, 42.19, 100):   # two-decimal spellings near some seams
        for k in range(-20, 21):
            v = base + k / 100.0
            if v > 0:
                out.append(('%.2f' % v).rstrip('0').rstrip('.') + 'K')
    for n in range(1, 101 if tier == 'thorough' else 43):      # two-decimal spellings whose first decimal is 0: 6.05K, 8.02K, 3.07M ...
        for d in range(1, 10):
            out.append('%d.0%dK' % (n, d))
            if n <= 30:
                out.append('%d.0%dM' % (n, d))
    for n in (3, 6, 7, 8, 16):                                # and all other two-decimal spellings for a few whole parts
        for d in range(10, 100, 1 if tier == 'thorough' else 5):
            out.append('%d.%02dK' % (n, d))
    return list(dict.fromkeys(out))


def true_metres(code):
    """the distance a spelling denotes, computed here from its text: bare metres, N[.d]K = kilometres, N[.d]M = miles of 1609.344 m"""
    from decimal import Decimal
    u = code.upper()
    if u.endswith('K'):
        return Decimal(u[:-1]) * 1000
    if u.endswith('M'):
        return Decimal(u[:-1]) * Decimal('1609.344')
    return Decimal(u)


def work(chunk):
    """both table years are asked the same codes in one process (order given), so state shared between the graders shows"""
    years, g, codes = chunk
    G = c14.setup()
    packs = []
    for y in years:
        ages = G['tab'][y]['ages']
        packs.append(work_year((y, g, codes, [ages[0], 30, 35, 41.25, 41.75, 52.25, 52.5, 67.75, 70, ages[-1], ages[-1] + 5])))
    out = packs[0]
    for p in packs[1:]:
        out['n'] += p['n']; out['nontrivial'] += p['nontrivial']; out['nviol'] += p['nviol']
        out['viol'] += p['viol']; out['samples'] += p['samples']
        for k, v in p['extra'].items():
            out['extra'][k] = out['extra'].get(k, 0) + v
    return out


def work_year(chunk):
    year, g, codes, ages_req = chunk
    G = c14.setup()
    a = G['athlib']
    data = G['tab'][year]
    ages = data['ages']
    rows = run_rows(data, g)
    tab_codes = set(r[0] for r in data[g])
    gd = G['utils'].get_distance
    kms = sorted(set(r[1] for r in rows))
    acc = Acc()
    prev_best = None
    for code in codes:
        if code.upper() in tab_codes:
            continue
        d = gd(code)
        if d is None:
            continue
        tm = true_metres(code)
        # bare metres are exact; a K spelling is cut to whole metres; a mile may be counted as 1609 m
        slack = 0 if code.isdigit() else 1 + (0.35 * float(code[:-1]) if code.upper().endswith('M') else 0)
        if abs(tm - d) > slack:
            acc.bad('distance-of-spelling-wrong', dict(code=code), 'get_distance(%r) = %r, the spelling denotes %s m' % (code, d, tm))
        d = int(tm) if tm == int(tm) else float(tm)
        km = float(tm) / 1000.0
        below = [k for k in kms if k < km]
        above = [k for k in kms if k > km]
        same = [k for k in kms if k == km]
        near = ([max(below)] if below else []) + ([min(above)] if above else []) + same
        R = [r for r in rows if r[1] in near]
        inside = bool(below) and bool(above)
        # ---- best
        acc.n += 1
        case = dict(year=year, gender=g, code=code, metres=d)
        try:
            b = a.wma_world_best(g, code, year=year)
        except Exception as e:
            acc.bad('best-raises:%s:%s' % (type(e).__name__, 'inside' if inside else 'below-table' if not below else 'above-table'), case, repr(e))
            b = None
        if b is not None:
            if not c14.pos(b):
                acc.bad('best-not-a-positive-number', case, 'wma_world_best = %r' % (b,))
            elif inside:
                lo, hi = min(r[2] for r in R), max(r[2] for r in R)
                if not (lo * (1 - EPS) <= b <= hi * (1 + EPS)):
                    acc.bad('best-outside-bracketing-rows', case, 'best %r, bracketing rows %r' % (b, [(r[0], r[2]) for r in R]))
                else:
                    acc.nontrivial += 1
                if prev_best is not None and prev_best[0] + prev_best[2] + slack < d and not b > prev_best[1]:
                    acc.bad('best-not-increasing-with-distance', dict(case, previous=prev_best), 'best %r at %s m, %r at %s m' % (b, d, prev_best[1], prev_best[0]))
            prev_best = (d, b, slack) if inside else None
        # ---- factor
        for age in ages_req:
            fs = [c14.oracle_factor(ages, r[3:], age) for r in R]
            if any(f is None for f in fs):
                continue            # the table does not cover this age for a bracketing row
            acc.n += 1
            case = dict(year=year, gender=g, code=code, metres=d, age=age)
            try:
                f = a.wma_age_factor(g, age, code, year=year)
            except Exception as e:
                acc.bad('factor-raises:%s:%s' % (type(e).__name__, 'inside' if inside else 'below-table' if not below else 'above-table'), case, repr(e))
                continue
            if not c14.pos(f):
                acc.bad('factor-not-a-positive-number', case, 'wma_age_factor = %r' % (f,))
                continue
            lo, hi = min(fs), max(fs)
            if not (lo * (1 - EPS) <= f <= hi * (1 + EPS)):
                acc.bad('factor-outside-bracketing-rows:%s' % ('inside' if inside else 'end-of-table'), case,
                        'factor %r, bracketing rows %r' % (f, [(r[0], x) for r, x in zip(R, fs)]))
            else:
                acc.nontrivial += 1
    if not acc.samples and codes:
        acc.samples.append(dict(year=year, gender=g, code=codes[len(codes) // 2], ages=ages_req))
    return acc.pack()


def run(tier):
    common.bind_repo()
    rep = Report(PID, tier, 'exploration')
    G = c14.setup()
    chunks = []
    nd = 0
    for g in 'mf':
        ds = set()
        for year in (2015, 2023):
            ds.update(distances(tier, run_rows(G['tab'][year], g)))
        D = [str(d) for d in sorted(ds)]
        nd = len(D)
        n = max(1, len(D) // 4000)
        j = 0
        for a, b in common.split_range(0, len(D), n):
            chunks.append(((2015, 2023) if j % 2 == 0 else (2023, 2015), g, D[max(0, a - 1):b]))
            j += 1
        S = sorted(spellings(tier), key=true_metres)
        for a, b in common.split_range(0, len(S), 8):
            chunks.append(((2015, 2023) if j % 2 == 0 else (2023, 2015), g, S[a:b]))
            j += 1
    merge(rep, pmap(work, chunks), part='distances x gender x ages x 2015/2023')
    c = rep.coverage
    c['distances_per_table'] = nd
    c['rule'] = ('bare whole-metre codes%s and road spellings 0.1K..400K, 0.1M..249M%s, skipping codes that are themselves tabulated; x gender x ages '
                 '{first column, 30, 35, 41.25, 52.5, 67.75, 70, last, last+5} x both years; non-trivial = answers inside the hull of the bracketing rows'
                 % (' 20..400000' if tier == 'thorough' else ' (every metre to 30 km, +-60 m of every tabulated distance, +-5 m of every mile multiple, 1 km steps to 400 km)',
                    '' if tier == 'thorough' else ' (every fifth)'))
    c['exhaustive'] = True
    rep.assumptions += ['the distance of a spelling is what get_distance reports; tabulated distances are the km column of the table',
                        'bracketing rows = all rows at the greatest smaller / least greater tabulated distance, plus rows at exactly the same distance under another code',
                        'beyond either end: no exception, finite positive answers, factor equal to the end row(s)']
    W = 'athlib.wma_age_factor', 'athlib.wma_age_grade', 'athlib.wma_world_best'
    oc = []
    for y in (2015, 2023):
        oc += [(W[0], ('m', 50, '11K'), dict(year=y)), (W[0], ('f', 60, '5.3M'), dict(year=y)), (W[0], ('m', 45, '2400'), dict(year=y)), (W[0], ('m', 45, '7000'), dict(year=y)),
               (W[0], ('f', 45, '7000'), dict(year=y)), (W[0], ('m', 45, '10K'), dict(year=y)), (W[0], ('m', 45, '10000'), dict(year=y)), (W[0], ('m', 70, '42'), dict(year=y)),
               (W[0], ('m', 70, '250000'), dict(year=y)), (W[2], ('m', '11K'), dict(year=y)), (W[2], ('f', '6200'), dict(year=y)), (W[2], ('m', '1609'), dict(year=y)),
               (W[1], ('m', 50, '8046', 1700.0), dict(year=y))]
    orderpass.part(rep, oc, 'interpolation call-order pass')
    # sequences on one grader: a tabulated running event, then an untabulated distance (a look-up that starts from where the previous one ended would
    # bracket with the wrong rows): every tabulated running row and ~40 untabulated distances across the axis, all ordered pairs, per year
    G14 = c14.setup()
    U_ = common.mod('athlib.utils')
    for y in (2015, 2023):
        tab = []
        for r in G14['tab'][y]['m']:
            try:
                d = U_.get_distance(r[0])
            except Exception:
                d = None
            if d and not G14['codes'].PAT_FIELD.match(r[0]) and not r[0].upper().endswith(('H', 'W', 'SC')):
                tab.append((d, r[0]))
        tab.sort()
        ds = sorted({d for d, _ in tab})
        unt = []
        for a, b in zip(ds, ds[1:]):
            if b - a > 4:
                unt += [str(a + 2), str((a + b) // 2)]
        unt += ['7K', '9K', '5.9M', '7.25K', '11K']
        unt = [u for u in dict.fromkeys(unt) if u not in {c for _, c in tab}][:44]
        oc2 = [(W[0], ('m', 50, c), dict(year=y)) for _, c in tab] + [(W[0], ('m', 50, u), dict(year=y)) for u in unt]
        orderpass.part(rep, oc2, 'tabulated event then untabulated distance, factor, table year %d' % y, conventions=False)
        oc3 = [(W[2], ('f', c), dict(year=y)) for _, c in tab[::2]] + [(W[2], ('f', u), dict(year=y)) for u in unt[::2]]
        orderpass.part(rep, oc3, 'tabulated event then untabulated distance, best, table year %d' % y, conventions=False)
    crossapi.part(rep, PID, tier)
    return rep.finish()


def replay(rec):
    G = c14.setup()
    a = G['athlib']
    c = rec['case']
    print(rec['sig'], '-', rec['msg'])
    for fn, args in ((a.wma_world_best, (c['gender'], c['code'])), (a.wma_age_factor, (c['gender'], c.get('age', 40), c['code']))):
        try:
            print(fn.__name__, '->', fn(*args, year=c['year']))
        except Exception as e:
            print(fn.__name__, 'raised', repr(e))
    return 1
