"""C08 - replaying the log or the card, in any jumping order, rebuilds the competition.   DESIGN.md 3/C08.
On every state reached by the hjmc BFS: R1 from_actions() of the log gives an equal observable snapshot (incl. trials),
R2 from_matrix(to_matrix()) gives the same state/heights/bests/places and cards modulo '-', R3 all reached states that
share a result card (= all per-athlete-order-preserving interleavings) have one observable snapshot and one set of accepted calls."""
from vlib import common, hjmc
from vlib.common import Report, HarnessError
from checks import hjcommon

PID = 'C08'


def run(tier):
    common.bind_repo()
    rep = Report(PID, tier, 'model_checking')
    bl = hjcommon.QUICK_BOUNDS if tier == 'quick' else hjcommon.THOROUGH_BOUNDS + hjcommon.HUGE_BOUNDS
    tot = hjcommon.explore(rep, ('C08',), bl, ('R',))
    hjcommon.explore_codecs(rep, ('C08',), tier, ('R',))
    hjcommon.jumping_orders(rep, tier)
    c = rep.coverage
    c['log_replays'] = tot['monitors']
    c['card_round_trips'] = tot['core_states']
    c['interleaving_groups'] = tot['card_groups']
    c['states_sharing_a_card_with_another'] = tot['core_states'] - tot['card_groups']
    if c['states_sharing_a_card_with_another'] < 100:
        raise HarnessError('vacuous: hardly any two histories end in the same card')
    c['rule'] = ('every reachable state of the BFS: log replay (R1), card export/import (R2, core zone), and grouping of all reached internal states '
                 'by result card (R3): two histories are order-preserving interleavings of each other iff they end in the same card')
    c['exhaustive'] = True
    c['bounds'] = [list(b) for b in bl]
    rep.assumptions += ['ranked_jumpers order among tied athletes is not observable (the tie-break the anchor mentions)',
                        'cards compared modulo trailing blanks; import compared modulo explicit pass marks',
                        'the log of a deduplicated state is that of its BFS-tree path; other paths are covered because every transition is '
                        'checked to append exactly its own entry and never to read the log']
    return rep.finish()


def replay(rec):
    return hjcommon.replay_history(rec, ('C08',))
