"""Shared sweep over the table-based junior scoring systems (Tyrving, QuadKids, Sportshall, Bulgarian U16) and the
Hungarian tables, used by C05 (monotonicity, bounds) and C11 (exact table / formula oracles).

Every job is one (system, table, event, age) x a contiguous range of centi-unit marks.  For each mark the real public
function is called with every documented input form; C11 compares with an exact-arithmetic oracle written here from the
table data (Fraction/Decimal), C05 compares neighbouring marks.  Violation signatures are prefixed with the property id.
"""
import math, re
from decimal import Decimal
from fractions import Fraction
from vlib import common
from vlib.common import Acc

_G = {}


def F(x):
    """exact value of a table constant written as a decimal literal"""
    if isinstance(x, int):
        return Fraction(x)
    return Fraction(Decimal(repr(x)))


def txt2(cs):
    return '%d.%02d' % divmod(cs, 100)


def txt1(cs):
    return '%d.%d' % (cs // 100, (cs % 100) // 10)


def mss(cs):
    m, s = divmod(cs, 6000)
    return '%d:%05.2f' % (m, s / 100.0) if False else '%d:%02d.%02d' % (m, s // 100, s % 100)


def setup():
    if _G:
        return _G
    athlib = common.bind_repo()
    _G['athlib'] = athlib
    _G['ty'] = common.mod('athlib.tyrving_score')
    _G['qk'] = common.mod('athlib.qkids_score')
    _G['sh'] = common.mod('athlib.sportshall_score')
    _G['bg'] = common.mod('athlib.bulgarian_score')
    _G['hu'] = common.mod('athlib.hungarian_score')
    _G['codes'] = common.mod('athlib.codes')
    return _G


# ------------------------------------------------------------------------------------------------
# Tyrving

def ty_ages(yv):
    if isinstance(yv, dict):
        return sorted(yv)
    y, v = yv
    return list(range(y, y + len(v)))


def ty_base(yv, age):
    if isinstance(yv, dict):
        return yv[age]
    y, v = yv
    return v[age - y]


def ty_jobs(tier):
    G = setup()
    jobs = []
    for g, tab in G['ty']._tyrvingTables.items():
        for ev, (kind, args) in tab.items():
            if kind == 'race':
                dist, mult, yv = args
                unit = Fraction(1, 100) if dist <= 500 else Fraction(1, 10)
                for age in ty_ages(yv):
                    base = F(ty_base(yv, age))
                    zero = base + 1000 * unit / F(mult)
                    hi = int(zero * 110)           # 10 % past the zero point, in cs
                    jobs.append(dict(sys='ty', g=g, ev=ev, age=age, kind=kind, lo=1, hi=hi, timed=True))
            elif kind == 'jump':
                mult, yv = args
                for age in ty_ages(yv):
                    base = F(ty_base(yv, age))
                    hi = int(base * 100 * 2)
                    jobs.append(dict(sys='ty', g=g, ev=ev, age=age, kind=kind, lo=0, hi=hi, timed=False))
            else:
                mults, yvs = args
                for age in ty_ages(yvs[0]):
                    base = F(ty_base(yvs[0], age))
                    hi = int(base * 100 * 2)
                    jobs.append(dict(sys='ty', g=g, ev=ev, age=age, kind=kind, lo=0, hi=hi, timed=False))
    return jobs


def ty_oracle(job, cs, manual):
    G = setup()
    kind, args = G['ty']._tyrvingTables[job['g']][job['ev']]
    v = Fraction(cs, 100)
    age = job['age']
    if kind == 'race':
        dist, mult, yv = args
        if manual:
            v += Fraction(24, 100) if dist in (100, 110, 200) else Fraction(20, 100) if dist in (40, 60, 80, 300) else Fraction(14, 100) if dist == 400 else 0
        unit = Fraction(1, 100) if dist <= 500 else Fraction(1, 10)
        val = 1000 + (F(ty_base(yv, age)) - v) * F(mult) / unit
    elif kind == 'jump':
        mult, yv = args
        val = 1000 + F(mult) * (v - F(ty_base(yv, age))) * 100
    else:
        mults, yvs = args
        L = [F(ty_base(yv, age)) for yv in yvs]
        d0, d1 = 100 * (v - L[0]), 100 * (v - L[1])
        val = 1000 + d0 * F(mults[0]) if d0 >= 0 else 1000 + d0 * F(mults[1]) if d1 > 0 else d1 * F(mults[2]) + L[2]
    return max(0, math.floor(val))


def ty_forms(job, cs):
    """[(form name, value, manual?)]"""
    out = [('text2', txt2(cs), False), ('float', cs / 100.0, False)]
    # decimal comma (the Norwegian way of writing it; accepted for jumps and throws): a form ending in '?' may be refused with ValueError,
    # but if it is answered the answer must be that of the dot form
    out.append(('text2-comma?', txt2(cs).replace('.', ','), False))
    if cs % 100 == 0:
        out.append(('int', cs // 100, False))
    if job['timed']:
        if cs % 10 == 0:
            out.append(('text1-hand', txt1(cs), True))
        if cs % 10 == 0:
            # hand-timed marks in the clock forms: m:ss.x (also with zero minutes) and dotted m.ss.x
            hand = '%d:%02d.%d' % (cs // 6000, (cs % 6000) // 100, (cs % 100) // 10)
            out.append(('m:ss.x-hand', hand, True))
            if cs >= 6000:
                out.append(('m.ss.x-hand', hand.replace(':', '.'), True))
        if cs >= 6000:
            out.append(('m:ss.xx', mss(cs), False))
            out.append(('m.ss.xx', mss(cs).replace(':', '.'), False))           # the Norwegian way: dots throughout
        if cs >= 360000:
            h, r = divmod(cs, 360000)
            hms = '%d:%02d:%02d.%02d' % (h, r // 6000, (r % 6000) // 100, r % 100)
            out.append(('h:mm:ss.xx', hms, False))
            out.append(('h.mm.ss.xx', hms.replace(':', '.'), False))
    else:
        if cs % 10 == 0:
            out.append(('text1', txt1(cs), False))
    return out


def ty_call(job, value):
    return setup()['athlib'].tyrving_score(job['g'], job['age'], job['ev'], value)


# ------------------------------------------------------------------------------------------------
# QuadKids

def qk_jobs(tier):
    G = setup()
    jobs = []
    inv = {}
    for name, code in G['qk']._compTypeMap.items():
        inv.setdefault(code, []).append(name)
    for ct, tab in G['qk']._qkidsTables.items():
        for ev, row in tab.items():
            timed = G['codes'].PAT_RUN.match(ev) is not None
            hi = int(max(row[1], row[2]) * 150)
            jobs.append(dict(sys='qk', ct=ct, ev=ev, lo=0, hi=hi, timed=timed, names=inv.get(ct, [])))
    return jobs


def qk_oracle(job, cs, manual=False):
    G = setup()
    inc, worst, best = G['qk']._qkidsTables[job['ct']][job['ev']]
    v = Fraction(cs, 100)
    delta = (F(worst) - v) if job['timed'] else (v - F(worst))
    val = delta / F(inc) + 10
    return max(10, min(100, math.floor(val)))


def qk_forms(job, cs):
    out = [('text2', txt2(cs), False), ('float', cs / 100.0, False)]
    if cs % 100 == 0:
        out.append(('int', cs // 100, False))
        out.append(('int-text?', str(cs // 100), False))          # whole units keyed in without a decimal point ('200'): may be refused, must be right if answered
    if job['timed'] and cs >= 6000:
        out.append(('m:ss.xx', mss(cs), False))
        out.append(('m;ss.xx', mss(cs).replace(':', ';'), False))          # the colon typed without shift, which parse_hms documents
    return out


def qk_call(job, value, ct=None):
    return setup()['athlib'].qkids_score(ct or job['ct'], job['ev'], value)


# ------------------------------------------------------------------------------------------------
# Sportshall

SH_HIGH = ['SLJ', 'SHJ', 'STJ', 'SP', 'BAL', 'SPB', 'TART', 'OHT', 'CHT', 'JT']


def sh_table():
    """event -> dict(high=bool, thresholds=[(points, Decimal perf in the function's unit)], inc=Decimal|None, incpoints=int)
    re-read from RAWDATA by the check (SHJ thresholds are centimetres, the function takes metres)"""
    if 'shtab' in _G:
        return _G['shtab']
    raw = setup()['sh'].RAWDATA
    cols = list(zip(*raw))
    keys = cols[0]
    tab = {}
    for col in cols[1:]:
        d = dict(zip(keys, col))
        code = d['code']
        th = []
        for p in range(1, 81):
            t = d[str(p)]
            if t != '-':
                th.append((p, Decimal(t) / 100 if code == 'SHJ' else Decimal(t)))
        inc = None
        it = d['increment']
        if it.endswith('cm'):
            inc = Decimal(it[:-2]) / 100
        elif it.endswith('sec'):
            inc = Decimal(it[:-3])
        elif it.endswith('m'):
            inc = Decimal(it[:-1])
        elif it.endswith('no.'):
            inc = Decimal(it[:-3].strip())
        ip = 0 if d['incpoints'] == 'n/a' else int(d['incpoints'])
        tab[code] = dict(high=code in SH_HIGH, th=th, inc=inc, incpoints=ip)
    _G['shtab'] = tab
    return tab


def sh_jobs(tier):
    jobs = []
    for ev, t in sh_table().items():
        vals = [v for _, v in t['th']]
        top = max(vals)
        hi = int(top * 100 * 2) if t['high'] else int(top * 100 * Decimal('1.3'))
        jobs.append(dict(sys='sh', ev=ev, lo=0, hi=hi, timed=not t['high']))
    return jobs


def sh_oracle(job, cs, manual=False):
    t = sh_table()[job['ev']]
    v = Decimal(cs) / 100
    th = t['th']
    topp, topv = th[-1]
    if t['high']:
        if v > topv:
            steps = int((v - topv) // t['inc']) if t['inc'] else 0
            return topp + steps * t['incpoints']
        got = [p for p, x in th if x <= v]
    else:
        if v < topv:
            steps = int((topv - v) // t['inc']) if t['inc'] else 0
            return topp + steps * t['incpoints']
        got = [p for p, x in th if x >= v]
    return max(got) if got else 0


def sh_forms(job, cs):
    out = [('text2', txt2(cs), False), ('float', cs / 100.0, False)]
    if cs % 100 == 0:
        out.append(('int-text', str(cs // 100), False))
    if cs % 10 == 0:
        out.append(('text1', txt1(cs), False))
    return out


def sh_call(job, value):
    return setup()['athlib'].sportshall_score(job['ev'], value)


# ------------------------------------------------------------------------------------------------
# Bulgarian U16

BG_TIMED = ['60', '100', '200', '600', '800', '60H', '100H']
BG_FIELD = ['SP', 'LJ', 'HJ']


def bg_jobs(tier):
    G = setup()
    jobs = []
    for key, tab in G['bg'].scores.items():
        m = re.match(r'^(U\d+)([MFX])(.+)$', key)
        ag, g, ev = m.groups()
        lo_, hi_ = sorted((tab['min'], tab['max']))
        jobs.append(dict(sys='bg', key=key, ag=ag, g=g, ev=ev, lo=max(0, lo_ - 300), hi=hi_ + 300, timed=ev in BG_TIMED))
    return jobs


def bg_oracle(job, cs, manual=False):
    tab = setup()['bg'].scores[job['key']]
    if job['timed']:
        if cs > tab['min']:
            return 0
        if cs < tab['max']:
            return 150
    else:
        if cs < tab['min']:
            return 0
        if cs > tab['max']:
            return 150
    return tab.get(cs, 'row-missing')


def bg_forms(job, cs):
    out = [('float', cs / 100.0, False)]
    if cs % 100 == 0:
        out.append(('int', cs // 100, False))
        if job['timed']:
            out.append(('int-text?', str(cs // 100), False))
    if job['timed']:
        out.append(('text2', txt2(cs), False))
        if cs >= 6000:
            out.append(('m:ss.xx', mss(cs), False))
            out.append(('m;ss.xx', mss(cs).replace(':', ';'), False))
    return out


def bg_call(job, value):
    return setup()['athlib'].bulgarian_score(job['ag'], job['g'], job['ev'], value)


# ------------------------------------------------------------------------------------------------
# Hungarian (C05 only: monotone + non-negative on the stated range)

def hu_jobs(tier):
    G = setup()
    jobs = []
    for (g, inout, ev, a, b, c) in G['hu'].FACTORS:
        timed = b < 0
        if timed:
            hi = int(-b * 100)            # zero point of the parabola: marks no slower than that
            lo = 1
        else:
            # field / multi-events: from the first mark whose tabulated value is non-negative to 1.5 x a 1400-point mark
            lo = max(0, int(math.ceil((math.sqrt(max(0.0, -c / a)) - b) * 100)) + 1)
            top = (-b + math.sqrt(max(0.0, (1400 - c) / a)))
            hi = int(top * 150)
        jobs.append(dict(sys='hu', g=g, inout=inout, ev=ev, lo=lo, hi=hi, timed=timed))
    return jobs


def hu_forms(job, cs):
    out = [('float', cs / 100.0, False)]
    if cs % 100 == 0:
        out.append(('int', cs // 100, False))
    return out


def hu_call(job, value):
    return setup()['athlib'].hungarian_score(job['g'], job['inout'], job['ev'], value)


def spelled_calls(job):
    """[(label, callable(value))]: the same job asked with other spellings of its event / gender / competition-type arguments.  A spelling may
    be refused; where it is answered the answer must be the one of the plain spelling (the event and the mark are the same)."""
    a = setup()['athlib']
    out = []
    ev = job['ev']
    evs = [(n, e) for n, e in (('lower', ev.lower()), ('padded', ' ' + ev + ' '), ('tab', '\t' + ev), ('upper', ev.upper())) if e != ev]
    if job['sys'] == 'ty':
        for n, e in evs:
            out.append(('event-' + n, lambda v, e=e: a.tyrving_score(job['g'], job['age'], e, v)))
        for g2 in (job['g'].lower(), {'M': 'male', 'F': 'female'}.get(job['g'], job['g']), {'M': 'Male', 'F': 'W'}.get(job['g'], job['g'])):
            out.append(('gender-%s' % g2, lambda v, g2=g2: a.tyrving_score(g2, job['age'], ev, v)))
        out.append(('age-float', lambda v: a.tyrving_score(job['g'], float(job['age']), ev, v)))
    elif job['sys'] == 'qk':
        for n, e in evs:
            out.append(('event-' + n, lambda v, e=e: a.qkids_score(job['ct'], e, v)))
        for nm in job.get('names', []):
            for nm2 in dict.fromkeys((nm, nm.lower(), nm.upper(), nm.title())):
                out.append(('competition-type-name', lambda v, nm2=nm2: a.qkids_score(nm2, ev, v)))
        out.append(('competition-type-lower', lambda v: a.qkids_score(str(job['ct']).lower(), ev, v)))
    elif job['sys'] == 'sh':
        for n, e in evs:
            out.append(('event-' + n, lambda v, e=e: a.sportshall_score(e, v)))

        def traced(v):
            import io, contextlib
            with contextlib.redirect_stdout(io.StringIO()):
                return a.sportshall_score(ev, v, verbose=True)
        out.append(('verbose-option', traced))
    elif job['sys'] == 'bg':
        for n, e in evs:
            out.append(('event-' + n, lambda v, e=e: a.bulgarian_score(job['ag'], job['g'], e, v)))
        out.append(('age-group-lower', lambda v: a.bulgarian_score(str(job['ag']).lower(), job['g'], ev, v)))
    return out


SYSTEMS = dict(
    ty=dict(jobs=ty_jobs, oracle=ty_oracle, forms=ty_forms, call=ty_call, lo=0, hi=None, name='Tyrving'),
    qk=dict(jobs=qk_jobs, oracle=qk_oracle, forms=qk_forms, call=qk_call, lo=10, hi=100, name='QuadKids'),
    sh=dict(jobs=sh_jobs, oracle=sh_oracle, forms=sh_forms, call=sh_call, lo=0, hi=None, name='Sportshall'),
    bg=dict(jobs=bg_jobs, oracle=bg_oracle, forms=bg_forms, call=bg_call, lo=0, hi=150, name='Bulgarian'),
    hu=dict(jobs=hu_jobs, oracle=None, forms=hu_forms, call=hu_call, lo=0, hi=None, name='Hungarian'),
)


def job_id(job):
    return {k: v for k, v in job.items() if k in ('sys', 'g', 'ev', 'age', 'ct', 'key', 'inout', 'ag')}


def split_jobs(jobs, tier, max_marks=40000):
    """cut long grids into pieces (with one mark of overlap so that adjacent pairs are compared across the cut);
    quick tier: rows longer than 120 000 marks are swept with a stride outside dense windows at both ends"""
    out = []
    for j in jobs:
        n = j['hi'] - j['lo'] + 1
        stride = 1
        if tier == 'quick' and n > 120000:
            stride = 7
        a = j['lo']
        while a <= j['hi']:
            b = min(j['hi'], a + max_marks * stride)
            out.append(dict(j, lo=a, hi=b, stride=stride))
            a = b + 1 if b == j['hi'] else b
    return out


def sweep(job):
    """returns Acc.pack(); violations carry 'C05:' or 'C11:' prefixed signatures"""
    S = SYSTEMS[job['sys']]
    acc = Acc()
    jid = job_id(job)
    prev = None           # (cs, {form: points}) of the previous (worse or better) mark
    timed = job['timed']
    stride = job.get('stride', 1)
    cs = job['lo']
    dense_lo = job['lo'] + 3000
    while cs <= job['hi']:
        cur = {}
        want = {}
        for name, val, manual in S['forms'](job, cs):
            acc.n += 1
            case = dict(jid, mark=val, form=name)
            try:
                got = S['call'](job, val)
            except Exception as e:
                if name.endswith('?') and isinstance(e, ValueError):
                    acc.add('optional_forms_refused')
                    continue
                acc.bad('C11:%s:raises-%s:%s' % (job['sys'], type(e).__name__, name), case, 'raised %r' % (e,))
                acc.bad('C05:%s:raises-%s:%s' % (job['sys'], type(e).__name__, name), case, 'raised %r' % (e,))
                continue
            cur[name] = got
            # C05 range / type
            if type(got) is not int:
                acc.bad('C05:%s:result-not-int' % job['sys'], case, 'returned %r (%s)' % (got, type(got).__name__))
            elif got < S['lo'] or (S['hi'] is not None and got > S['hi']):
                acc.bad('C05:%s:result-out-of-bounds' % job['sys'], case, 'returned %r, bounds %r..%r' % (got, S['lo'], S['hi']))
            # C11 exactness
            if S['oracle'] is not None:
                w = want.get(manual)
                if w is None:
                    w = want[manual] = S['oracle'](job, cs, manual)
                if got != w:
                    acc.bad('C11:%s:differs-from-table:%s:%s' % (job['sys'], job.get('kind', 'timed' if timed else 'field'), name), case,
                            'returned %r, exact evaluation of the table gives %r' % (got, w))
                elif isinstance(w, int) and w > S['lo']:
                    acc.nontrivial += 1
            else:
                if isinstance(got, int) and got > 0:
                    acc.nontrivial += 1
        # other spellings of the arguments, at every 211th mark: refused, or the same points
        if S['oracle'] is not None and (cs - job['lo']) % 211 == 0 and 'text2' in cur or (S['oracle'] is not None and (cs - job['lo']) % 211 == 0 and 'float' in cur):
            ref = cur.get('text2', cur.get('float'))
            val = txt2(cs) if 'text2' in cur else cs / 100.0
            for label, fn in spelled_calls(job):
                acc.n += 1
                try:
                    got2 = fn(val)
                except Exception:
                    acc.add('spelled_arguments_refused')
                    continue
                if got2 != ref:
                    acc.bad('C11:%s:spelling-of-arguments-changes-points:%s' % (job['sys'], label), dict(jid, mark=val, spelling=label),
                            'plain spelling scores %r, %s scores %r' % (ref, label, got2))
                else:
                    acc.add('spelled_arguments_agree')
        # Tyrving: hand-timed never scores more than the same figure timed electronically
        for hname in ('text1-hand', 'm:ss.x-hand', 'm.ss.x-hand'):
            if hname in cur and 'text2' in cur and isinstance(cur[hname], int) and isinstance(cur['text2'], int):
                if cur[hname] > cur['text2']:
                    acc.bad('C05:ty:hand-timed-scores-more' + ('' if hname == 'text1-hand' else ':' + hname), dict(jid, mark=txt1(cs), form=hname),
                            'hand-timed (%s) %r -> %d, electronic %r -> %d' % (hname, txt1(cs), cur[hname], txt2(cs), cur['text2']))
        # C05 monotonicity against the previous mark, per form present in both
        if prev is not None:
            pcs, pres = prev
            for name in cur:
                if name in pres and isinstance(cur[name], int) and isinstance(pres[name], int):
                    better, worse = (pres[name], cur[name]) if timed else (cur[name], pres[name])
                    # timed: previous (smaller) mark is better; field: current (larger) mark is better
                    if better < worse:
                        acc.bad('C05:%s:better-mark-fewer-points:%s' % (job['sys'], name), dict(jid, worse=(cs if timed else pcs) / 100.0, better=(pcs if timed else cs) / 100.0, form=name),
                                'better mark scores %d, worse mark scores %d' % (better, worse))
            # ... and across the input forms that carry the mark as electronically timed / measured (all but the hand-timed text)
            ce = {n: v for n, v in cur.items() if isinstance(v, int) and 'hand' not in n}
            pe = {n: v for n, v in pres.items() if isinstance(v, int) and 'hand' not in n}
            if ce and pe:
                (bn, bv), (wn, wv) = (min(pe.items(), key=lambda t: t[1]), max(ce.items(), key=lambda t: t[1])) if timed else \
                                     (min(ce.items(), key=lambda t: t[1]), max(pe.items(), key=lambda t: t[1]))
                if bv < wv and bn != wn:
                    acc.bad('C05:%s:better-mark-fewer-points:across-forms' % job['sys'], dict(jid, worse=(cs if timed else pcs) / 100.0, better=(pcs if timed else cs) / 100.0,
                                                                                             better_form=bn, worse_form=wn),
                            'better mark as %s scores %d, worse mark as %s scores %d' % (bn, bv, wn, wv))
        prev = (cs, cur)
        if len(acc.samples) < 1 and cur and any(isinstance(v, int) and v > S['lo'] for v in cur.values()):
            acc.samples.append(dict(jid, mark=cs / 100.0, points=cur))
        cs += 1 if (stride == 1 or cs < dense_lo) else stride
    return acc.pack()


# ------------------------------------------------------------------------------------------------
# call-order pass (vlib/orderpass): a few jobs of every system at a mark in the middle of their range

def order_call(sysname, idx, cs, formidx):
    S = SYSTEMS[sysname]
    job = _order_jobs()[sysname][idx]
    forms = S['forms'](job, cs)
    return S['call'](job, forms[formidx % len(forms)][1])


def _order_jobs():
    if 'order_jobs' not in _G:
        _G['order_jobs'] = {k: S['jobs']('quick') for k, S in SYSTEMS.items()}
    return _G['order_jobs']


def order_calls(per_system=6):
    """[(path, args)] for orderpass: per system jobs spread over its table (first, last and evenly between), two marks and two input forms"""
    calls = []
    for sysname in ('ty', 'qk', 'sh', 'bg', 'hu'):
        jobs = _order_jobs()[sysname]
        n = len(jobs)
        idxs = sorted(set([0, n - 1] + [int(i * (n - 1) / (per_system - 1)) for i in range(per_system)]))
        for k, i in enumerate(idxs):
            j = jobs[i]
            mid = (j['lo'] + j['hi']) // 2
            calls.append(('checks.scoring_common:order_call', (sysname, i, mid, k)))
            if k % 3 == 0:
                calls.append(('checks.scoring_common:order_call', (sysname, i, mid + 37, k + 1)))
    return calls
