"""C07 - event-code normalisation yields one canonical, valid, stable spelling.   DESIGN.md 2.2(c), 3/C07.

The language of PAT_EVENT_CODE is enumerated from its syntax tree (all structural skeletons; slots filled by a
covering scheme).  For every code: normalise -> accepted, no whitespace, idempotent, same families; spelling
variants (case, spacing, unit suffix, trailing zeros) normalise identically; near misses are refused with ValueError."""
import re, itertools
from vlib import concpass
from checks import crossapi
from vlib import common, rxmc
from vlib import orderpass
from vlib.common import Report, Violation, HarnessError, Acc, pmap, merge

PID = 'C07'
FAMILIES = ['PAT_TRACK', 'PAT_HURDLES', 'PAT_ROAD', 'PAT_RELAYS', 'PAT_JUMPS', 'PAT_THROWS', 'PAT_MULTI',
            'PAT_RACES_FOR_DISTANCE', 'PAT_HIGHSCORING_EVENT', 'PAT_LOWSCORING_EVENT']
_G = {}


def setup(tier):
    if 'L' not in _G:
        P = rxmc.load_patterns()
        A = rxmc.Alphabet(P)
        L, nsk = rxmc.enumerate_language(A, P['PAT_EVENT_CODE'], rich=(tier == 'thorough'), pairs=True, triples=(tier == 'thorough'))
        _G.update(P=P, A=A, L=L, nsk=nsk, conf=confusables())
    return _G


def confusables(per_image=5):
    """non-ASCII characters that a Unicode-aware transformation (NFKC/NFKD folding, upper, lower, casefold) turns into one to three ASCII
    characters: {ascii image: [characters]} - the near misses a normaliser that folds before it matches would let through"""
    import unicodedata
    fs = [lambda c: unicodedata.normalize('NFKC', c), lambda c: unicodedata.normalize('NFKD', c), str.upper, str.lower, str.casefold]
    out = {}
    for cp in range(0x80, 0x110000):
        ch = chr(cp)
        if unicodedata.category(ch) in ('Cs', 'Cn', 'Co') or ch.isspace():
            continue
        for f in fs:
            im = f(ch)
            if im != ch and 0 < len(im) <= 3 and im.isascii() and im.strip() == im:
                L = out.setdefault(im, [])
                if ch not in L and len(L) < per_image:
                    L.append(ch)
    return out


def fam(P, s):
    return tuple(P[f].match(s) is not None for f in FAMILIES)


WS = re.compile(r'\s')
NUM_UNIT = re.compile(r'(\d+)(\.(\d*))?(\s*)(cm|m|[Kk][Gg]?|g)?(?=\s|$|\d|[a-z]|[A-Z])')


def variants(c, is_throw):
    """spellings that differ from c only in case, spacing, unit suffix or trailing zeros (not all need be valid codes).
    Suffix and trailing-zero variants apply to implement weights (throws) and hurdle specifications only: '10K' and '10.0K'
    as road distances are different codes as far as the statement goes."""
    V = set()
    V.update([c.lower(), c.upper(), c.swapcase(), c[:1].lower() + c[1:], c[:1].upper() + c[1:]])
    # case flips must leave the lower-case unit markers alone to stay in the language
    V.update([re.sub(r'CM', 'cm', c.upper()), re.sub(r'(?<=\d)M(?=\s|$|\d)', 'm', re.sub(r'CM', 'cm', c.upper()))])
    V.add(''.join(c.split()))
    V.add(' ' + c + ' ')
    V.add(c + '\n')
    V.add('\t' + c)
    if ' ' in c:
        # the same blanks, many of them (a column-aligned export): more than 32 / 64 whitespace characters in all
        V.add(c.replace(' ', ' ' * 40))
        V.add(c.replace(' ', ' \t' * 9))
        V.add(c.replace(' ', ' ' * 13))
    # weight suffix spellings
    m = re.search(r'(?<=\d)\s*([Kk][Gg]?)$', c) if is_throw else None
    if m:
        for suf in ('K', 'k', 'kg', 'Kg', 'KG', 'kG', ' kg', ' K'):
            V.add(c[:m.start()] + suf)
    m = re.search(r'(?<=\d)\s*g$', c)
    if m:
        V.add(c[:m.start()])
        V.add(c[:m.start()] + ' g')
    elif re.search(r'^[sS]?[jJ][tT]\s*[45678]00$', c) or re.search(r'^[oO][tT]\d+$', c):
        V.add(c + 'g')
    # trailing zeros on decimals followed by a unit (weights, hurdle heights and spacings)
    unit = r'(?:cm|m\b|m(?=\s|\d|$)|[Kk])' if is_throw else r'(?:cm|m\b|m(?=\s|\d|$))'
    for m in re.finditer(r'(\d+)\.(\d*)(?=\s*' + unit + ')', c):
        a, b = m.group(1), m.group(2)
        for nb in (b + '0', b + '00', b.rstrip('0')):
            V.add(c[:m.start()] + a + '.' + nb + c[m.end():])
        if not b.strip('0'):
            V.add(c[:m.start()] + a + c[m.end():])
    unit2 = r'(?:cm|m(?=\s|\d|$)|[Kk][Gg]?$)' if is_throw else r'(?:cm|m(?=\s|\d|$))'
    for m in re.finditer(r'(?<![\d.])(\d+)(?=\s*' + unit2 + ')', c):
        V.add(c[:m.start()] + m.group(1) + '.0' + c[m.end():])
        V.add(c[:m.start()] + m.group(1) + '.' + c[m.end():])
    V.discard(c)
    return V


def check_code(c, acc, P, norm, chk):
    acc.n += 1
    case = dict(code=c)
    try:
        n = norm(c)
    except Exception as e:
        acc.bad('valid-code-refused:%s' % type(e).__name__, case, 'normalize_event_code(%r) raised %r' % (c, e))
        return None
    if not isinstance(n, str) or chk(n) is None:
        acc.bad('normalised-code-not-accepted', case, 'normalize(%r) = %r is not accepted by check_event_code' % (c, n))
        return n
    if WS.search(n):
        acc.bad('whitespace-survives', case, 'normalize(%r) = %r contains whitespace' % (c, n))
    try:
        n2 = norm(n)
        if n2 != n:
            acc.bad('not-idempotent', case, 'normalize(%r) = %r, normalising again gives %r' % (c, n, n2))
    except Exception as e:
        acc.bad('not-idempotent', case, 'normalize(%r) = %r, normalising again raised %r' % (c, n, e))
    f0, f1 = fam(P, c.strip()), fam(P, n)
    if f0 != f1:
        acc.bad('family-changes', case, 'families of %r: %s; of its normal form %r: %s' % (
            c, [f for f, x in zip(FAMILIES, f0) if x], n, [f for f, x in zip(FAMILIES, f1) if x]))
    return n


def work(chunk):
    tier, lo, hi = chunk
    G = setup(tier)
    P, L = G['P'], G['L']
    U = common.mod('athlib.utils')
    norm, chk = U.normalize_event_code, U.check_event_code
    EC = P['PAT_EVENT_CODE']
    acc = Acc()
    classes = 0
    for c in L[lo:hi]:
        if chk(c) is None:
            raise HarnessError('generator emitted %r which the real pattern rejects' % c)
        n = check_code(c, acc, P, norm, chk)
        if n is None:
            continue
        acc.nontrivial += 1
        vs = [v for v in variants(c, P['PAT_THROWS'].match(c.strip()) is not None) if EC.match(v.strip())]
        if vs:
            classes += 1
        for v in vs:
            acc.n += 1
            try:
                nv = norm(v)
            except Exception as e:
                acc.bad('valid-code-refused:%s' % type(e).__name__, dict(code=v), 'normalize_event_code(%r) raised %r' % (v, e))
                continue
            if nv != n:
                acc.bad('spelling-variants-normalise-differently', dict(code=c, variant=v),
                        '%r -> %r but its variant %r -> %r' % (c, n, v, nv))
        if len(acc.samples) < 2 and vs:
            acc.samples.append(dict(code=c, normal_form=n, variants=sorted(vs)[:6]))
    acc.add('variant_classes', classes)
    return acc.pack()


def near_work(chunk):
    tier, lo, hi, step = chunk
    G = setup(tier)
    P, L, A = G['P'], G['L'], G['A']
    U = common.mod('athlib.utils')
    norm = U.normalize_event_code
    EC = P['PAT_EVENT_CODE']
    reps = [A.rep(ci) for ci in range(len(A.classes)) if A.rep(ci) not in '\t\n']
    # characters with a meaning of their own in whatever builds the refusal (format strings, templates, paths, patterns) - all in the same partition class
    SPECIAL = ['%', '{', '}', '\\', '$', '(', '[', '*', "'", '"', '\x00']
    acc = Acc()
    seen = set()
    for c in L[lo:hi:step]:
        cand = set()
        for i in range(len(c)):
            cand.add(c[:i] + c[i + 1:])
            cand.add(c[:i] + c[i] + c[i:])
            for r in reps:
                if r != c[i]:
                    cand.add(c[:i] + r + c[i + 1:])
        cand.add(c + c)
        for r in SPECIAL:
            for i in (0, len(c) // 2, len(c)):
                cand.add(c[:i] + r + c[i:])
                cand.add(c[:i] + r + 's' + c[i:])
            if c:
                cand.add(r + c[1:])
        # look-alikes: a stretch of the code replaced by a non-ASCII character that folds into it
        cl = c.lower()
        for im, chars in G['conf'].items():
            iml = im.lower()
            j = cl.find(iml)
            while j >= 0:
                for ch in chars:
                    cand.add(c[:j] + ch + c[j + len(im):])
                j = cl.find(iml, j + 1)
        # call order: the valid code is normalised first, its near misses afterwards (a refusal must not depend on what was normalised
        # before); 'twins' - near misses that differ from the code only in letter case or blanks - are tried after every code they stem from
        try:
            n0 = norm(c)
        except Exception:
            n0 = None
        fold = ''.join(c.split()).upper()
        for s in sorted(cand):
            if EC.match(s.strip()):
                continue
            twin = ''.join(s.split()).upper() == fold
            if s in seen and not twin:
                continue
            seen.add(s)
            acc.n += 1
            acc.nontrivial += 1
            try:
                r = norm(s)
                acc.bad('non-code-not-refused', dict(string=s), 'normalize_event_code(%r) returned %r for a string that is not an event code' % (s, r))
            except ValueError:
                pass
            except Exception as e:
                acc.bad('non-code-refused-with-%s' % type(e).__name__, dict(string=s), 'normalize_event_code(%r) raised %r, not ValueError' % (s, e))
        if n0 is not None:
            try:
                n1 = norm(c)
            except Exception as e:
                n1 = 'raised %s' % type(e).__name__
            if n1 != n0:
                acc.bad('normal-form-depends-on-earlier-calls', dict(code=c), 'normalize(%r) = %r, after its refused near misses %r' % (c, n0, n1))
    for s in ['', ' ', 'XYZ', '100 metres', '4x', 'x100', 'DT1.5.5K', '٣٣٣x', 'H0', 'L10', 'SST', 'JT900', '1e3', '%', '%s', '%d%d', '%(k)s', '{}', '{0}', '100%', '\\d+', '$HJ', 'HJ$']:
        if not EC.match(s.strip()):
            acc.n += 1
            try:
                r = norm(s)
                acc.bad('non-code-not-refused', dict(string=s), 'returned %r' % (r,))
            except ValueError:
                pass
            except Exception as e:
                acc.bad('non-code-refused-with-%s' % type(e).__name__, dict(string=s), 'raised %r' % (e,))
    return acc.pack()


def run(tier):
    common.bind_repo()
    rep = Report(PID, tier, 'exploration')
    G = setup(tier)
    L = G['L']
    n = len(L)
    chunks = [(tier, a, b) for a, b in common.split_range(0, n, 64)]
    t = merge(rep, pmap(work, chunks), part='language of PAT_EVENT_CODE')
    step = 7 if tier == 'quick' else 3
    t2 = merge(rep, pmap(near_work, [(tier, a, b, step) for a, b in common.split_range(0, n, 64)]), part='near misses')
    c = rep.coverage
    c['language_strings'] = n
    c['skeletons'] = G['nsk']
    c['rule'] = ('every structural skeleton of PAT_EVENT_CODE (all alternatives, optional groups, repeat counts) x covering fills (3 bases, all single and '
                 'pair deviations%s); per code its case/space/suffix/trailing-zero variants that the pattern accepts; near misses = one character deleted, '
                 'doubled or replaced by another partition class, kept when the pattern rejects them; non-trivial = codes normalised + near misses refused'
                 % (', triples, all Unicode blanks, non-ASCII digits' if tier == 'thorough' else ''))
    c['exhaustive'] = True
    rep.assumptions += ['structure is exhaustive, digit values and slot combinations beyond pairs (triples in thorough) are a covering scheme',
                        'family of a code with surrounding blanks is that of the stripped code']
    if n < 20000 or t['extra'].get('variant_classes', 0) < 5000:
        raise HarnessError('vacuous: %d codes, %r' % (n, t['extra']))
    U = 'athlib.utils:'
    codes = ['100', '100m', '100M', ' 100 M', '10mw', '10MW', 'SPB', 'spb', 'BAL', 'bal', '4x100', '4X100', '4x100M', '4x100m', '110H106.7cm9.14m', '110h106.7CM9.14M', 'DT 1.50 Kg', 'dt1.5k',
             'DT1.5K', 'JT800', 'jt800g', 'MAR W', 'mar', 'Mar', 'MILE', 'mile', 'MILe', '2000SC84cm', 'sc', 'SC', 'HJ', 'hj', 'XYZ', '']
    oc = [(U + 'normalize_event_code', (c,)) for c in codes] + [(U + 'check_event_code', (c,)) for c in codes[:16]]
    orderpass.part(rep, oc, 'normalisation call-order pass')
    crossapi.part(rep, PID, tier)
    concpass.part(rep, PID, tier)
    return rep.finish()


def replay(rec):
    if concpass.is_conc(rec):
        return concpass.replay(rec)
    U = common.mod('athlib.utils')
    for k in ('code', 'variant', 'string'):
        s = rec['case'].get(k)
        if s is None:
            continue
        try:
            n = U.normalize_event_code(s)
            print('%s=%r -> %r  accepted=%s' % (k, s, n, U.check_event_code(n) is not None))
        except Exception as e:
            print('%s=%r raised %r' % (k, s, e))
    print(rec['sig'], '-', rec['msg'])
    return 1
