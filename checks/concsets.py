"""Scenario sets for the concurrency passes of the checks whose functions are meant to be pure (vlib/concpass.py).   DESIGN.md 2.3a
build(set, athlib, _call, add) registers scenarios exactly as checks/c16.py does for its own:  add(name, warm-up calls, thread bodies, bound=(quick, thorough))."""
import datetime
from vlib import common


class EntryError(Exception):
    pass


def _hj_body(bars, script, as_float=False):
    """a whole small competition run by one thread: returns state, places, bests, cards"""
    def body():
        from decimal import Decimal
        HJ = common.mod('athlib.highjump').HighJumpCompetition
        c = HJ()
        bibs = sorted({b for _, b in script if b})
        for i, b in enumerate(bibs):
            c.add_jumper(bib=b, order=i + 1)
        hs = iter(bars)
        for op, b in script:
            if op == 'bar':
                h = next(hs)
                c.set_bar_height(float(h) if as_float else Decimal(h))
            else:
                getattr(c, dict(o='cleared', x='failed', p='passed', r='retired')[op])(b)
        return (c.state, tuple((j.bib, j.place, str(j.highest_cleared), tuple(j.attempts_by_height)) for j in c.jumpers), tuple(tuple(r) for r in c.to_matrix()))
    body.desc = 'competition%r' % (tuple(script),)
    return body


def build(setname, a, _call, add):
    U = common.mod('athlib.utils')
    D = datetime.date
    if setname == 'C12':
        cp = a.check_performance_for_discipline
        add('P12 same new event in both threads, another event validated before', [_call(cp, '100', '10.5')],
            [_call(cp, 'MAR', '2:10:00'), _call(cp, 'MAR', '12.00', errorKlass=EntryError)], bound=(2, 2))
        add('P12 two events first-call', [], [_call(cp, '100', '10.5'), _call(cp, 'MAR', '2:10:00')], bound=(1, 2))
        add('P12 field || timed, warmed-up', [_call(cp, 'LJ', '6.50')], [_call(cp, 'HJ', '1.80'), _call(cp, '800', '2:05.3')], bound=(1, 2))
        add('P12 same event, two marks, first-call', [], [_call(cp, '400', '50.1'), _call(cp, '400', '3:50.1', errorKlass=EntryError)], bound=(1, 2))
        add('P12 road || track same letters', [_call(cp, '5000', '15:00.0')], [_call(cp, '5K', '15:00'), _call(cp, '5000', '3:00.0', errorKlass=EntryError)], bound=(1, 2))
        add('P12 multi || throw', [_call(cp, 'DEC', '7000')], [_call(cp, 'HEP', '5500'), _call(cp, 'JT', '65.30', 'f')], bound=(1, 2))
    elif setname == 'C13':
        cg = a.calc_uka_age_group
        add('P13 XC || XC other meeting date, first-call', [], [_call(cg, D(2002, 6, 1), D(2015, 10, 10), 'XC'), _call(cg, D(1980, 5, 5), D(2015, 3, 1), 'XC')], bound=(2, 2))
        add('P13 XC || XC other meeting date, warmed-up', [_call(cg, D(1990, 1, 1), D(2016, 1, 9), 'XC')],
            [_call(cg, D(2002, 6, 1), D(2015, 10, 10), 'XC'), _call(cg, D(1980, 5, 5), D(2015, 3, 1), 'XC')], bound=(2, 2))
        add('P13 TF || TF other meeting year, warmed-up', [_call(cg, D(1990, 1, 1), D(2016, 5, 9), 'TF')],
            [_call(cg, D(2001, 9, 1), D(2015, 6, 20), 'TF'), _call(cg, D(1975, 6, 21), D(2014, 6, 21), 'TF')], bound=(2, 2))
        add('P13 TF || XC same athlete', [_call(cg, D(1990, 1, 1), D(2016, 5, 9), 'TF')],
            [_call(cg, D(2003, 8, 31), D(2015, 9, 20), 'TF'), _call(cg, D(2003, 8, 31), D(2015, 9, 20), 'XC')], bound=(2, 2))
        add('P13 ROAD || TF, text birth dates, options', [_call(cg, D(1990, 1, 1), D(2016, 5, 9), 'TF')],
            [_call(cg, '1979-02-28', D(2016, 2, 29), 'ROAD', True, False), _call(cg, '2006-03-01', D(2015, 2, 28), 'TF', False, True)], bound=(2, 2))
    elif setname == 'C06':
        fs, ph, ru = a.format_seconds_as_time, a.parse_hms, a.round_up_str_num
        add('P06 format || format', [], [_call(fs, 3599.999, 2), _call(fs, 65.00000000000001, 1)], bound=(2, 2))
        add('P06 format || parse', [_call(fs, 1.5, 1)], [_call(fs, 7199.5, 0), _call(ph, '1:59:59.5')], bound=(2, 2))
        add('P06 parse || parse', [], [_call(ph, '2:03.45'), _call(ph, '1;02;03')], bound=(2, 2))
        add('P06 round-up || round-up', [], [_call(ru, '9.9995', 3), _call(ru, '.0', 0)], bound=(2, 2))
        add('P06 round-up || format', [_call(ru, '1.25', 1)], [_call(ru, '99.999', 2), _call(fs, 59.999, 2)], bound=(2, 2))
    elif setname == 'C07':
        ne, ce = a.normalize_event_code, a.check_event_code
        add('P07 two spellings of one throw', [], [_call(ne, 'DT 1.50 Kg'), _call(ne, 'dt1.5k')], bound=(2, 2))
        add('P07 hurdles specification || relay', [_call(ne, 'HJ')], [_call(ne, '400h 76.20cm 9.50m'), _call(ne, '4 x 100')], bound=(1, 2))
        add('P07 code || non-code', [_call(ne, 'HJ')], [_call(ne, ' mar w '), _call(ne, '100m')], bound=(1, 2))
        add('P07 normalise || check', [], [_call(ne, 'WT 9.080 kg'), _call(ce, 'wt9.08k')], bound=(1, 2))
    elif setname == 'C10':
        dk, tk, sd, gd = a.discipline_sort_key, a.text_discipline_sort_key, a.sort_by_discipline, a.get_distance
        add('P10 key || key', [], [_call(dk, '4x100'), _call(dk, '110H')], bound=(2, 2))
        add('P10 text key || distance', [_call(dk, 'HJ')], [_call(tk, '3000SC'), _call(gd, '4x400')], bound=(2, 2))
        add('P10 sorter || sorter', [], [_call(sd, [dict(discipline=x) for x in ('HJ', '100', '4x100', 'DT1.5K')]), _call(sd, [dict(discipline=x) for x in ('MAR', '200', 'PV', None)])], bound=(1, 2))
        add('P10 sorter || key', [_call(dk, 'HJ')], [_call(sd, [dict(discipline=x) for x in ('JT', '800', '60H')]), _call(dk, '5K')], bound=(1, 2))
    elif setname == 'C17':
        sc_, iw = a.get_specific_event_code, a.get_implement_weight
        add('P17 code || code', [], [_call(sc_, 'SP', 'M', 'V50'), _call(sc_, 'JT', 'F', 'U17')], bound=(2, 2))
        add('P17 code || weight same cell', [_call(sc_, 'DT', 'M', 'SEN')], [_call(sc_, 'WT', 'M', 'V60'), _call(iw, 'WT', 'M', 'V60')], bound=(2, 2))
        add('P17 throw || non-throw', [], [_call(sc_, 'HT', 'F', 'V100'), _call(sc_, '4x100', 'F', 'V100')], bound=(2, 2))
    elif setname == 'C02':
        # each thread owns its competition object: nothing may be shared between two competitions
        A = _hj_body(['1.80', '1.85', '1.80'], [('bar', None), ('o', 'A'), ('o', 'B'), ('bar', None), ('x', 'A'), ('x', 'A'), ('x', 'A'), ('x', 'B'), ('x', 'B'), ('x', 'B'),
                                           ('bar', None), ('o', 'A'), ('x', 'B')])
        B = _hj_body(['2.00', '2.05'], [('bar', None), ('x', 'P'), ('o', 'P'), ('p', 'Q'), ('r', 'R'), ('bar', None), ('o', 'Q'), ('x', 'P'), ('x', 'P'), ('x', 'P')])
        C = _hj_body(['2.1', '2.2', '2.1'], [('bar', None), ('o', 'A'), ('o', 'B'), ('bar', None), ('x', 'A'), ('x', 'A'), ('x', 'A'), ('x', 'B'), ('x', 'B'), ('x', 'B'),
                                          ('bar', None), ('o', 'A'), ('o', 'B')], as_float=True)
        add('P02 two competitions, one with a jump-off', [], [A, B], bound=(1, 1))
        add('P02 two jump-offs (Decimal and float bars)', [], [A, C], bound=(1, 1))
    else:
        raise common.HarnessError('unknown scenario set %r' % setname)
