"""C18 - the JavaScript port computes the same answers as the Python reference.   DESIGN.md 2.6, 3/C18.
Python enumerates the grids of C06 and C11, node evaluates /repo/js/src (loaded through js/harness.js), Python compares:
numbers numerically, strings exactly, 'refuses' = any thrown error vs any raised exception."""
import itertools
from vlib import common, jsdiff
from vlib.common import Report, Violation, HarnessError, Acc, pmap, merge
from checks import scoring_common as sc
from checks import c06

PID = 'C18'


def U():
    return common.mod('athlib.utils')


def compare(acc, jsname, pyfn, arglists, sigfn=None, conv=None):
    """evaluate one batch in both languages"""
    res = jsdiff.node_eval([(jsname, arglists)])[0]
    if len(res) != len(arglists):
        raise HarnessError('node returned %d results for %d jobs' % (len(res), len(arglists)))
    for args, js in zip(arglists, res):
        acc.n += 1
        py = jsdiff.py_eval(pyfn, conv(args) if conv else args)
        if jsdiff.same(py, js):
            if 'e' not in py:
                acc.nontrivial += 1
        else:
            sig = sigfn(args, py, js) if sigfn else ''
            acc.bad('%s:%s' % (jsname, sig or ('python-%s-js-%s' % ('refuses' if 'e' in py else 'value', 'refuses' if 'e' in js else js.get('t') or 'value'))),
                    dict(fn=jsname, args=args), 'Python %r, JavaScript %r' % (py, js))
    if not acc.samples and arglists:
        acc.samples.append(dict(fn=jsname, args=arglists[len(arglists) // 2], python=repr(jsdiff.py_eval(pyfn, conv(arglists[len(arglists) // 2]) if conv else arglists[len(arglists) // 2]))))


def rus_work(chunk):
    digits, ints, maxf = chunk
    acc = Acc()
    args = []
    for I in ints:
        for fl in range(0, maxf + 1):
            for Ft in itertools.product(digits, repeat=fl):
                s = I + '.' + ''.join(Ft)
                for prec in range(6):
                    args.append([s, prec])
        for prec in range(6):
            args.append([I, prec])
    compare(acc, 'roundUpStrNum', U().round_up_str_num, args,
            sigfn=lambda a, py, js: 'empty-integer-part' if a[0].startswith('.') or a[0] == '' else '')
    return acc.pack()


def fsat_work(chunk):
    kind, a, b = chunk
    acc = Acc()
    args = []
    if kind == 'grid':
        for k in range(a, b):
            for prec in range(4):
                args.append([k / 1000.0, prec])
                if k % 1000 == 0:
                    args.append([k // 1000, prec])
    elif kind == 'seams':
        for mnt in range(a, b):
            base = mnt * 60000
            for k in sorted(set(range(base - 10, base + 11)) | set(range(base - 2000, base + 2001, 100))):
                if k >= 0:
                    for prec in range(4):
                        args.append([k / 1000.0, prec])
    else:
        for x in c06.residue_floats():
            for prec in range(4):
                args.append([x, prec])
        for bad in (-1, 4, 5, 10):
            args.append([12.5, bad])

    def sig(a_, py, js):
        x = a_[0]
        return 'fraction-below-1e-4' if isinstance(x, float) and 0 < x - int(x) < 1e-4 else ''
    compare(acc, 'formatSecondsAsTime', U().format_seconds_as_time, args, sigfn=sig)
    return acc.pack()


def ph_work(chunk):
    firsts = chunk
    acc = Acc()
    args = []
    for sep in ':;':
        for f1 in firsts:
            for nf in (1, 2, 3):
                for rest in itertools.product(*([c06.FIELDS_INT] * (nf - 1))):
                    ints = (f1,) + rest
                    for d in c06.DECS:
                        if nf == 1 and sep == ';':
                            continue
                        args.append([sep.join(ints) + d])
    args += [[0], [5], [3670.1], [12.5]]
    compare(acc, 'parseHms', U().parse_hms, args)
    return acc.pack()


def misc_work(chunk):
    acc = Acc()
    G = sc.setup()
    # isHandTiming: texts and numbers
    texts = ['%d.%s' % (i, d) for i in (0, 9, 12, 59, 125) for d in ('', '0', '5', '05', '50', '123')] + ['12', '1:02.5', '1:02.55', '1:02', '.5', '5.', '']
    args = [[t] for t in texts] + [[12.5], [12], [0.1]]
    compare(acc, 'isHandTiming', U().is_hand_timing, args)
    # normalizeEventCode on every Tyrving / QuadKids key (and lower-case / spaced spellings of them)
    keys = []
    for g, tab in G['ty']._tyrvingTables.items():
        keys += list(tab)
    for ct, tab in G['qk']._qkidsTables.items():
        keys += list(tab)
    keys = list(dict.fromkeys(keys))
    args = [[k] for k in keys] + [[k.lower().replace('cm', 'cm ')] for k in keys] + [[' ' + k + ' '] for k in keys]
    # the same keys with trailing zeros, a bare point or blanks on their numbers (rail heights, spacings, implement weights): '76.2cm' as '76.20cm',
    # '84cm' as '84.0cm' / '84.cm', '7.5m' as '7.50m', '9m' as '9.0m', 'K' weights likewise - every number of the key at once and one at a time
    import re as _re
    num = _re.compile(r'(\d+(?:\.\d+)?)(cm|m|K|k|g)(?![A-Za-z])')

    def respell(k, how, only=None):
        n = [0]

        def sub(m):
            n[0] += 1
            if only is not None and n[0] != only:
                return m.group(0)
            d, u = m.group(1), m.group(2)
            if how == 'zero':
                return (d + '0' if '.' in d else d + '.0') + u
            if how == 'zeros':
                return (d + '00' if '.' in d else d + '.00') + u
            if how == 'point':
                return (d if '.' in d else d + '.') + u
            return d + ' ' + u
        return num.sub(sub, k)
    for k in keys:
        for how in ('zero', 'zeros', 'point', 'blank'):
            for only in (None, 1, 2, 3):
                k2 = respell(k, how, only)
                if k2 != k:
                    args.append([k2])
                    args.append([k2.lower()])
    args = [list(x) for x in dict.fromkeys(tuple(a) for a in args)]
    args = [a for a in args if U().check_event_code(a[0].strip()) is not None]
    compare(acc, 'normalizeEventCode', U().normalize_event_code, args)
    return acc.pack()


def score_work(job):
    """one (system, table, event, age) x mark range: all forms, both languages"""
    acc = Acc()
    S = sc.SYSTEMS[job['sys']]
    athlib = sc.setup()['athlib']
    args = []
    stride = job.get('stride', 1)
    cs = job['lo']
    dense_lo = job['lo'] + 3000
    k = 0
    while cs <= job['hi']:
        forms = S['forms'](job, cs)
        for name, val, manual in forms:
            if job['sys'] == 'ty':
                # an optional input form belongs to the shared domain only where the Python reference answers it
                if name.endswith('?') and 'e' in jsdiff.py_eval(athlib.tyrving_score, [job['g'], job['age'], job['ev'], val]):
                    continue
                args.append([job['g'], job['age'], job['ev'], val])
            else:
                args.append([job['ct'], job['ev'], val])
        if job['sys'] == 'ty' and k % 97 == 0:
            # other spellings of the event and gender arguments (blank-padded, lower case), where the Python reference answers them
            ev = job['ev']
            # marks keyed in with stray blanks
            for name, val, manual in forms:
                if isinstance(val, str):
                    for v2 in (val + ' ', ' ' + val, val + '\t', val + '  '):
                        if 'e' not in jsdiff.py_eval(athlib.tyrving_score, [job['g'], job['age'], ev, v2]):
                            args.append([job['g'], job['age'], ev, v2])
            # ages as they may arrive: a float worked out from dates, text
            for age2 in (job['age'] + 0.5, job['age'] + 0.99, float(job['age']), str(job['age']), ' %d ' % job['age']):
                for name, val, manual in forms[:2]:
                    if 'e' not in jsdiff.py_eval(athlib.tyrving_score, [job['g'], age2, ev, val]):
                        args.append([job['g'], age2, ev, val])
            for ev2, g2 in ((' ' + ev, job['g']), (ev + ' ', job['g']), ('\t' + ev, job['g']), (ev.lower(), job['g']), (ev, job['g'].lower()), (' ' + ev.lower() + ' ', job['g'])):
                for name, val, manual in forms:
                    if isinstance(val, str) and 'e' not in jsdiff.py_eval(athlib.tyrving_score, [g2, job['age'], ev2, val]):
                        args.append([g2, job['age'], ev2, val])
        if k % 13 == 0:
            # marks finer than the 0.01 grid (a photo-finish reading, a tape read to the millimetre), as text and as float
            for mil in (1, 5, 9):
                for val in ('%d.%02d%d' % (cs // 100, cs % 100, mil), (cs * 10 + mil) / 1000.0):
                    if job['sys'] == 'ty':
                        if 'e' not in jsdiff.py_eval(athlib.tyrving_score, [job['g'], job['age'], job['ev'], val]):
                            args.append([job['g'], job['age'], job['ev'], val])
                    else:
                        args.append([job['ct'], job['ev'], val])
        k += 1
        cs += 1 if (stride == 1 or cs < dense_lo) else stride
    if job['sys'] == 'qk':
        for nm in job.get('names', []):
            for val in (('9.70', 3.3, '1:30.00', 75) if job['timed'] else ('9.70', 3.3, 75)):      # m:ss text only where a time is expected
                args.append([nm.title(), job['ev'], val])
                args.append([nm.lower(), job['ev'], val])
    if job['sys'] == 'ty':
        def sig(a_, py, js):
            if a_[2] != job['ev'] or a_[0] != job['g']:
                return 'event-or-gender-spelling'
            if a_[1] != job['age'] or type(a_[1]) is not int:
                return 'age-form'
            if isinstance(a_[3], str) and a_[3] != a_[3].strip():
                return 'mark-with-blanks'
            if (isinstance(a_[3], str) and len(a_[3].rsplit('.', 1)[-1]) == 3 and a_[3].count('.') == 1 and ':' not in a_[3]) or (
                    isinstance(a_[3], float) and abs(a_[3] * 100 - round(a_[3] * 100)) > 1e-6):
                return 'mark-finer-than-0.01'
            dist = sc.setup()['ty']._tyrvingTables[a_[0]][a_[2]][1][0] if job.get('kind') == 'race' else None
            hand = isinstance(a_[3], str) and U().is_hand_timing(a_[3])
            return 'hand-timed-%s' % ('40-60-80-300' if dist in (40, 60, 80, 300) else 'other') if hand else ''
        compare(acc, 'tyrvingScore', athlib.tyrving_score, args, sigfn=sig)
    else:
        compare(acc, 'qkidsScore', athlib.qkids_score, args)
    return acc.pack()


def run(tier):
    common.bind_repo()
    rep = Report(PID, tier, 'exploration')
    # decimal round-up
    digits = '059'
    maxi, maxf = (3, 6) if tier == 'quick' else (4, 7)
    ints = [''.join(t) for n in range(0, maxi + 1) for t in itertools.product(digits, repeat=n)]
    merge(rep, pmap(rus_work, [(digits, ints[i::32], maxf) for i in range(32)]), part='roundUpStrNum: I.F over 059, |I|<=%d, |F|<=%d, prec 0..5' % (maxi, maxf))
    full = '0123456789'
    ints2 = [''.join(t) for n in range(0, 3) for t in itertools.product(full, repeat=n)]
    merge(rep, pmap(rus_work, [(full, ints2[i::32], 3) for i in range(32)]), part='roundUpStrNum: all ten digits, |I|<=2, |F|<=3')
    # duration formatting
    top = 120000 if tier == 'quick' else 3600000
    chunks = [('grid', a, b) for a, b in common.split_range(0, top + 1, 64)]
    chunks += [('seams', a, b) for a, b in common.split_range(0, 6001, 64)] + [('residue', 0, 0)]
    merge(rep, pmap(fsat_work, chunks), part='formatSecondsAsTime: 0.001 grid to %d min, seams to 100 h, residue floats' % (top // 60000))
    merge(rep, pmap(ph_work, [[f] for f in c06.FIELDS_INT]), part='parseHms: well-formed 1-3 field strings')
    merge(rep, [misc_work(None)], part='isHandTiming, normalizeEventCode on table keys')
    jobs = sc.split_jobs(sc.ty_jobs(tier) + sc.qk_jobs(tier), tier, max_marks=20000)
    jobs.sort(key=lambda j: -(j['hi'] - j['lo']) // j.get('stride', 1))
    packs = pmap(score_work, jobs)
    merge(rep, [p for p, j in zip(packs, jobs) if j['sys'] == 'ty'], part='tyrvingScore: every table x age x grid x forms')
    merge(rep, [p for p, j in zip(packs, jobs) if j['sys'] == 'qk'], part='qkidsScore: every table x grid x forms x competition-type spellings')
    c = rep.coverage
    c['rule'] = ('each ported function pair on the C06 / C11 grids (decimal strings x precision, durations x precision, h:m:s strings, every Tyrving and QuadKids table x the 0.01 grid as '
                 'two-decimal text, one-decimal (hand-timed) text, number and m:ss.xx); non-trivial = pairs where both languages return the same value (not both refusing)'
                 + ('; quick: long rows strided as in C11' if tier == 'quick' else ''))
    c['exhaustive'] = tier == 'thorough'
    rep.assumptions += ['Python is the reference; js/src is loaded under node 20 through a CommonJS shim that rewrites the import lines (no Babel)',
                        'comma decimals and malformed h:m:s strings are outside the shared domain']
    return rep.finish()


def replay(rec):
    c = rec['case']
    res = jsdiff.node_eval([(c['fn'], [c['args']])])[0][0]
    print('JavaScript', c['fn'], c['args'], '->', res)
    print(rec['sig'], '-', rec['msg'])
    return 1
