"""C10 - every valid event code can be sorted, measured and classified without error.   DESIGN.md 3/C10.

Totality over the enumerated language of PAT_EVENT_CODE; ordering clauses on all pairs of a canonical subset;
the sorter on all short lists with repeated and missing disciplines."""
import itertools
from vlib import concpass
from checks import crossapi
from vlib import common, rxmc
from vlib import orderpass
from vlib.common import Report, Violation, HarnessError, Acc, pmap, merge

PID = 'C10'
_G = {}
FIELD_ORDER = ['HJ', 'PV', 'LJ', 'TJ', 'SP', 'DT', 'HT', 'JT']


def setup(tier):
    if 'L' not in _G:
        P = rxmc.load_patterns()
        A = rxmc.Alphabet(P)
        L, nsk = rxmc.enumerate_language(A, P['PAT_EVENT_CODE'], rich=(tier == 'thorough'), pairs=True, triples=(tier == 'thorough'))
        # an accepted code may still carry its line terminator ('$' matches before a final line feed): every third code once more with '\n' appended
        pe = P['PAT_EVENT_CODE']
        L = list(L) + [c + '\n' for c in list(L)[::3] if not c.endswith('\n') and pe.match(c + '\n')]
        _G.update(P=P, A=A, L=L, nsk=nsk)
    return _G


def family_rank(P, c):
    """expected first component of the sort key; family = first of throws, hurdles, jumps, relays, track that accepts the code"""
    if P['PAT_THROWS'].match(c):
        return 4
    if P['PAT_HURDLES'].match(c):
        return 2
    if P['PAT_JUMPS'].match(c):
        return 3
    if P['PAT_RELAYS'].match(c):
        return 5
    if P['PAT_TRACK'].match(c):
        return 1
    return 6


def call(acc, fn, name, c, *a):
    try:
        return True, fn(c, *a)
    except Exception as e:
        acc.bad('%s-raises:%s' % (name, type(e).__name__), dict(code=c), '%s(%r) raised %r' % (name, c, e))
        return False, None


def work(chunk):
    tier, lo, hi = chunk
    G = setup(tier)
    P, L = G['P'], G['L']
    U = common.mod('athlib.utils')
    AS = common.mod('athlib.athlon_score')
    AG = common.mod('athlib.wma.agegrader').AgeGrader
    acc = Acc()
    for c in L[lo:hi]:
        acc.n += 1
        ok, key = call(acc, U.discipline_sort_key, 'discipline_sort_key', c)
        if ok:
            acc.nontrivial += 1
            if not (isinstance(key, tuple) and len(key) == 3 and isinstance(key[0], int) and isinstance(key[1], int)):
                acc.bad('sort-key-malformed', dict(code=c), 'discipline_sort_key(%r) = %r' % (c, key))
            else:
                want = family_rank(P, c)
                meters = P['PAT_TRACK'].match(c).group('meters') if want == 1 else 'x'
                if key[0] != want and not (want == 1 and meters is None and key[0] in (1, 2)):
                    acc.bad('family-rank-wrong:%d-instead-of-%d' % (key[0], want), dict(code=c), 'discipline_sort_key(%r) = %r, family rank should be %d' % (c, key, want))
        if ok and isinstance(key, tuple) and len(key) == 3:
            # a spelling of a code (blanks of any kind, letter case, unit suffixes) sorts where its normal form sorts
            try:
                nf = U.normalize_event_code(c)
                kn = U.discipline_sort_key(nf)
            except Exception:
                nf = kn = None
            if kn is not None and isinstance(kn, tuple) and kn[:2] != key[:2]:
                acc.bad('spelling-sorts-apart-from-its-normal-form', dict(code=c, normal_form=nf), 'discipline_sort_key(%r) = %r, of its normal form %r: %r' % (c, key, nf, kn))
        if ok and len(acc.samples) < 1 and acc.n % 97 == 0:
            acc.samples.append(dict(code=c, sort_key=list(key), distance=U.get_distance(c)))
        ok2, t = call(acc, U.text_discipline_sort_key, 'text_discipline_sort_key', c)
        if ok2 and not isinstance(t, str):
            acc.bad('text-key-not-str', dict(code=c), repr(t))
        okd, d = call(acc, U.get_distance, 'get_distance', c)
        if okd and d is not None and not isinstance(d, int):
            acc.bad('distance-not-int', dict(code=c), 'get_distance(%r) = %r' % (c, d))
        call(acc, U.get_duration_event_time, 'get_duration_event_time', c)
        oku, u = call(acc, AS.unit_name, 'unit_name', c)
        if oku and u not in ('metres', 'seconds'):
            acc.bad('unit-name-unknown', dict(code=c), repr(u))
        if any(P[f].match(c) for f in ('PAT_THROWS', 'PAT_JUMPS', 'PAT_TRACK', 'PAT_ROAD')):
            okk, k = call(acc, AG.event_code_to_kind, 'event_code_to_kind', c)
            if okk and k not in ('throw', 'jump', 'track', 'road'):
                acc.bad('kind-unknown', dict(code=c), repr(k))
        call(acc, lambda x: U.sort_by_discipline([dict(discipline=x), dict(discipline='100')]), 'sort_by_discipline', c)
        # relay with numeric legs: legs x leg distance
        m = P['PAT_RELAYS'].match(c)
        if m and okd and m.group(3):
            legd, _ = None, None
            try:
                legd = U.get_distance(m.group(2))
            except Exception:
                pass
            legs = int(m.group(1))
            exp = None
            g2 = m.group(2)
            num = float(m.group(3))
            suf = g2[len(m.group(3)):]
            unit = {'': 1, 'h': 1, 'H': 1, 'm': 1, 'K': 1000, 'k': 1000, 'M': 1609}.get(suf)      # a lower-case m is metres wherever the library reads distances
            exp = legs * int(unit * num) if unit else None
            if exp is not None and d != exp:
                acc.bad('relay-distance-wrong', dict(code=c), 'get_distance(%r) = %r, legs x leg distance = %r' % (c, d, exp))
    return acc.pack()


def canonical_subset(G):
    """distinct normal forms of the language, thinned to one per (skeleton-ish shape, digits) class: every code without blanks,
    upper-cased letters, at most ~3000 of them, simplest first"""
    U = common.mod('athlib.utils')
    seen = {}
    for c in G['L']:
        if any(ch.isspace() for ch in c) or c != c.upper() and not any(x in c for x in ('cm', 'm', 'x')):
            continue
        if c != c.strip() or not c.isascii():
            continue
        try:
            n = U.normalize_event_code(c)
        except Exception:
            continue
        if n == c and c not in seen:
            seen[c] = 1
    for extra in ('100000', '250000', '42195', '99999', '20000', '4x100000', '4x20000', '4x99999', '150000W'):
        if U.check_event_code(extra) is not None:
            seen.setdefault(extra, 1)
    S = list(seen)
    if len(S) > 3000:
        step = len(S) / 3000.0
        S = [S[int(i * step)] for i in range(3000)]
    return S


def pair_work(chunk):
    tier, lo, hi = chunk
    G = setup(tier)
    P = G['P']
    U = common.mod('athlib.utils')
    S = _G['S']
    K = _G['K']
    acc = Acc()
    for i in range(lo, hi):
        a = S[i]
        ka = K[i]
        if ka is None:
            continue
        for j in range(i + 1, len(S)):
            b = S[j]
            kb = K[j]
            if kb is None:
                continue
            acc.n += 1
            # the sorter itself on the pair, given in descending key order
            if ka[:3] != kb[:3]:
                lo_c, hi_c = (a, b) if ka[:3] < kb[:3] else (b, a)
                try:
                    out = U.sort_by_discipline([dict(discipline=hi_c), dict(discipline=lo_c)])
                    if [t['discipline'] for t in out] != [lo_c, hi_c]:
                        acc.bad('sorter-disagrees-with-sort-key', dict(a=lo_c, b=hi_c), 'sort_by_discipline puts %r before %r; keys %r / %r' % (hi_c, lo_c, ka[:3], kb[:3]))
                except Exception as e:
                    acc.bad('sort_by_discipline-raises:%s' % type(e).__name__, dict(a=a, b=b), repr(e))
            ra, rb = ka[3], kb[3]
            if ra != rb:
                # family order: track < hurdles/steeple < jumps < throws < relays < other
                if (ra < rb) != (ka[0] < kb[0]) and ka[4] and kb[4]:
                    acc.bad('family-order-violated', dict(a=a, b=b), 'keys %r / %r; expected family ranks %d / %d' % (ka[:3], kb[:3], ra, rb))
                continue
            acc.nontrivial += 1
            if ra in (1, 2, 5) and ka[5] is not None and kb[5] is not None and int(ka[5]) != int(kb[5]):      # whole metres: the key holds ints
                # same family, both with a distance: ordered by distance
                if (ka[5] < kb[5]) != (ka[:2] < kb[:2]):
                    acc.bad('distance-order-violated', dict(a=a, b=b), 'distances %r / %r but keys %r / %r' % (ka[5], kb[5], ka[:3], kb[:3]))
            # text key sorts like the tuple key below 100 km
            if ka[1] < 100000 and kb[1] < 100000:
                ta, tb = ka[6], kb[6]
                if (ka[:3] < kb[:3]) != (ta < tb) or (ka[:3] == kb[:3]) != (ta == tb):
                    acc.bad('text-key-order-differs', dict(a=a, b=b), 'tuple keys %r / %r, text keys %r / %r' % (ka[:3], kb[:3], ta, tb))
    return acc.pack()


def run(tier):
    common.bind_repo()
    rep = Report(PID, tier, 'exploration')
    G = setup(tier)
    P, L = G['P'], G['L']
    U = common.mod('athlib.utils')
    merge(rep, pmap(work, [(tier, a, b) for a, b in common.split_range(0, len(L), 64)]), part='totality over the language')
    # ordering clauses
    S = canonical_subset(G)
    K = []
    for c in S:
        try:
            k = U.discipline_sort_key(c)
            t = U.text_discipline_sort_key(c)
            want = family_rank(P, c)
            definite = not (want == 1 and P['PAT_TRACK'].match(c).group('meters') is None)
            dist = None
            if want in (1, 2, 5):
                m = P['PAT_RELAYS'].match(c)
                if want == 5:
                    dist = float(m.group(3)) if m.group(3) else None
                    if dist is not None and c[m.end(3):m.end(2)] not in ('', 'h', 'H'):
                        dist = None           # 4x5K, 4x1M: the statement does not say in which unit legs are compared
                elif want == 2:
                    dist = int(P['PAT_HURDLES'].match(c).group(1))
                else:
                    g = P['PAT_TRACK'].match(c).group('meters')
                    dist = None if g is None else (int(g) if g.isdigit() else 1609 * int(g[0]) if g[0].isdigit() else 1609)
            K.append((k[0], k[1], k[2], want, definite, dist, t))
        except Exception:
            K.append(None)          # reported by the totality pass
    _G['S'], _G['K'] = S, K
    merge(rep, pmap(pair_work, [(tier, a, b) for a, b in common.split_range(0, len(S), 128)]), part='ordering clauses on all pairs of %d canonical codes' % len(S))
    # field order
    acc = Acc()
    keys = []
    for c in FIELD_ORDER:
        try:
            keys.append(U.discipline_sort_key(c))
        except Exception as e:
            acc.bad('discipline_sort_key-raises:%s' % type(e).__name__, dict(code=c), repr(e))
    acc.n += 1
    if len(keys) == 8 and keys != sorted(keys):
        acc.bad('field-order-violated', dict(codes=FIELD_ORDER), 'keys %r' % (keys,))
    # the sorter: all lists of length <= 3 over a 12-element set with repeats and missing disciplines
    pool = ['100', '110H', '3000SC', 'HJ', 'SP7.26K', '4x100', 'DEC', 'MILE', 'JT800', '5K', None, '', '100000', '20000', '4x100000', '4x20000']

    class Obj(object):
        def __init__(self, d):
            self.discipline = d

    import collections, types

    class Rec(dict):
        pass

    class Slots(object):
        __slots__ = ('discipline',)

        def __init__(self, d):
            self.discipline = d
    makers = [lambda d, pos: dict(discipline=d, tag=pos), lambda d, pos: Obj(d), lambda d, pos: collections.OrderedDict(discipline=d, tag=pos),
              lambda d, pos: Rec(discipline=d), lambda d, pos: types.SimpleNamespace(discipline=d), lambda d, pos: Slots(d),
              lambda d, pos: collections.defaultdict(lambda: None, discipline=d)]
    for n in (0, 1, 2, 3):
        for combo in itertools.product(range(len(pool)), repeat=n):
          for mk in ([None] + list(range(2, len(makers))) if n == 2 else [None]):
            acc.n += 1
            if mk is None:
                things = [dict(discipline=pool[i], tag=pos) if (i + pos) % 2 else Obj(pool[i]) for pos, i in enumerate(combo)]
            else:
                things = [makers[mk](pool[i], pos) for pos, i in enumerate(combo)]        # all records of one other kind: dict subclasses, namespaces, slots
            disc = lambda t: t.get('discipline') if isinstance(t, dict) else t.discipline
            try:
                out = U.sort_by_discipline(list(things))
            except Exception as e:
                acc.bad('sort_by_discipline-raises:%s' % type(e).__name__, dict(disciplines=[pool[i] for i in combo]), repr(e))
                continue
            ks = [U.discipline_sort_key(disc(t)) for t in out]
            if sorted(map(id, out)) != sorted(map(id, things)) or ks != sorted(ks):
                acc.bad('sorter-output-not-sorted-permutation', dict(disciplines=[pool[i] for i in combo]), 'keys %r' % (ks,))
            else:
                # stability: equal keys keep input order
                pos = {id(t): i for i, t in enumerate(things)}
                for x, y in zip(out, out[1:]):
                    if U.discipline_sort_key(disc(x)) == U.discipline_sort_key(disc(y)) and pos[id(x)] > pos[id(y)]:
                        acc.bad('sorter-not-stable', dict(disciplines=[pool[i] for i in combo]), 'equal keys reordered')
                        break
    # the attr argument: the same records under another attribute / key name
    class Ev(object):
        def __init__(self, d):
            self.event = d
            self.discipline = 'JT'          # an unrelated value under the default name must not matter
    for combo in itertools.product(range(len(pool)), repeat=2):
        for kind in ('obj', 'dict', 'ns', 'mixed'):
            acc.n += 1
            mk = {'obj': lambda d, i: Ev(d), 'dict': lambda d, i: dict(event=d, discipline='JT'), 'ns': lambda d, i: types.SimpleNamespace(event=d),
                  'mixed': lambda d, i: Ev(d) if i % 2 else dict(event=d)}[kind]
            things = [mk(pool[i], pos) for pos, i in enumerate(combo)]
            ev_of = lambda t: t.get('event') if isinstance(t, dict) else t.event
            try:
                out = U.sort_by_discipline(list(things), attr='event')
            except Exception as e:
                acc.bad('sort_by_discipline-raises:%s' % type(e).__name__, dict(disciplines=[pool[i] for i in combo], attr='event', records=kind), repr(e))
                continue
            ks = [U.discipline_sort_key(ev_of(t)) for t in out]
            if sorted(map(id, out)) != sorted(map(id, things)) or ks != sorted(ks):
                acc.bad('sorter-ignores-attr-argument', dict(disciplines=[pool[i] for i in combo], attr='event', records=kind), 'keys %r' % (ks,))
    merge(rep, [acc.pack()], part='field order and sorter lists')
    c = rep.coverage
    c['language_strings'] = len(L)
    c['canonical_codes'] = len(S)
    c['rule'] = ('language of PAT_EVENT_CODE as for C07 (all skeletons x covering fills) through every function named in the statement; ordering clauses on '
                 'all pairs of the canonical (already normalised, blank-free) subset; sorter on all lists of length <= 3 over 16 disciplines incl. None/empty; '
                 'non-trivial = codes with a key / same-family pairs')
    c['exhaustive'] = True
    rep.assumptions += ['family of a code for the rank clause = first of throws, hurdles, jumps, relays, track that accepts it; distance-less track spellings '
                        '(SC, LH, SH, 2MT..) may rank 1 or 2', 'relay legs with K/M suffix are not compared by distance (statement silent on the unit)']
    if len(L) < 20000 or len(S) < 500:
        raise HarnessError('vacuous: %d codes, %d canonical' % (len(L), len(S)))
    U = 'athlib.utils:'
    codes = ['100', '100m', '100M', '10M', '10K', '10k', '110H', '110H106.7cm', '400H', '400LH', '3000SC', '2000SC84cm', '4x100', '4X100', '4x400', 'MILE', 'mile', '1MILE', 'HM', 'MAR',
             '3000W', '20KW', 'HJ', 'hj', 'PV', 'SP', 'SP7.26K', 'DT1.5K', 'JT800', 'WT', 'DEC', 'HEP', 'PEN', '1HR', '24HR', 'XC', None, '', 'garbage']
    oc = [(U + 'discipline_sort_key', (c,)) for c in codes] + [(U + 'get_distance', (c,)) for c in codes if c] + [(U + 'text_discipline_sort_key', (c,)) for c in codes[:12]]
    orderpass.part(rep, oc, 'sort-key call-order pass')
    crossapi.part(rep, PID, tier)
    concpass.part(rep, PID, tier)
    return rep.finish()


def replay(rec):
    if concpass.is_conc(rec):
        return concpass.replay(rec)
    U = common.mod('athlib.utils')
    for k in ('code', 'a', 'b'):
        c = rec['case'].get(k)
        if c is None:
            continue
        for fn in (U.discipline_sort_key, U.text_discipline_sort_key, U.get_distance, U.get_duration_event_time):
            try:
                print('%s(%r) = %r' % (fn.__name__, c, fn(c)))
            except Exception as e:
                print('%s(%r) raised %r' % (fn.__name__, c, e))
    print(rec['sig'], '-', rec['msg'])
    return 1
