"""C02 - only rule-conforming trials are recorded; refusals change nothing.   DESIGN.md 3/C02.
Every reachable state of the real HighJumpCompetition within the bounds x every call of the alphabet,
legal or not: U1 refusal type, U2 refusal leaves the full internal snapshot untouched, U3 state order,
U4/U5 accepted exactly when the rules (reference model, lock-step) allow it."""
import time
from vlib import concpass
from vlib import common, hjmc
from vlib.common import Report, Violation
from checks import hjcommon

PID = 'C02'
# long jump-offs (n athletes tied, up to J rounds, bar moves): every rule-conforming continuation, and at EVERY node every alphabet call
QUICK_JOPROBE = [(3, 3, (0, -1, 1)), (2, 4, (0, -1, 1)), (4, 2, (0, -1))]
THOROUGH_JOPROBE = [(3, 4, (0, -1, 1)), (2, 6, (0, -1, 1)), (4, 3, (0, -1)), (3, 5, (0, -1)), (5, 2, (0,))]


def run(tier):
    common.bind_repo()
    rep = Report(PID, tier, 'model_checking')
    bl = hjcommon.QUICK_BOUNDS if tier == 'quick' else hjcommon.THOROUGH_BOUNDS + hjcommon.HUGE_BOUNDS
    hjcommon.explore(rep, ('C02',), bl, ('U',))
    hjcommon.explore_codecs(rep, ('C02',), tier, ('U',))
    hjcommon.probe_long_cards(rep, ('U', 'long'))
    for (n, J, deltas) in (QUICK_JOPROBE if tier == 'quick' else THOROUGH_JOPROBE):
        t0 = time.time()
        tot, viol = hjmc.jo_long(n, J, deltas, probe=True)
        rep.part('long jump-off with full-alphabet probes at every node (%d athletes tied, up to %d rounds, bar moves %r)' % (n, J, list(deltas)),
                 wall_s=round(time.time() - t0, 1), **tot)
        rep.count(evaluations=tot['probes'], calls_tried=tot['probes'], refused_calls_checked=tot['refused'],
                  traces_validated_against_impl=tot['lockstep'])
        for sig, hist, msg in viol:
            if sig.startswith('U') or sig.startswith('deep:'):
                rep.add_violation(Violation(sig, dict(bounds=[n, 2, J], history=hjmc.fmt_hist(hist)), msg))
    rep.coverage['rule'] = ('explicit-state BFS over the live competition object; every alphabet call {add new/existing bib, bar +1/0/-1, '
                            'cleared/failed/passed/retired x every bib} applied to a clone of every reachable state; dedup on the reflected '
                            'internal snapshot + model state; non-trivial = distinct reachable states')
    rep.coverage['exhaustive'] = True
    rep.coverage['bounds'] = [list(b) for b in bl]
    rep.assumptions += ['bounds are (athletes, regular heights, jump-off heights, irregular jump-off moves explored)',
                        'I1-I6 of DESIGN.md 2.1: unknown bibs outside the alphabet; no-height tie may jump off or finish; passes in a jump-off and early '
                        'jump-off bar moves are fringe (universal checks only)',
                        'the action log is write-only for transitions (verified at run time by an instrumented list)']
    concpass.part(rep, PID, tier)
    return rep.finish()


def replay(rec):
    if concpass.is_conc(rec):
        return concpass.replay(rec)
    return hjcommon.replay_history(rec, ('C02',))
