// node harness for C18: loads /repo/js/src/*.js (which mix ES `import {..} from` with CommonJS `module.exports`) through a tiny
// CommonJS shim, reads a job file  {"fn": name, "args": [[...], ...]}  per line and writes one result array per line:
// each result is {"v": value} | {"v": null, "t": "NaN"|"Infinity"|"-Infinity"|"undefined"} | {"e": "message"}.
'use strict';
const fs = require('fs');
const path = require('path');
const vm = require('vm');

const SRC = process.argv[2];
const cache = {};

function load(file) {
  const full = path.resolve(SRC, file.endsWith('.js') ? file : file + '.js');
  if (cache[full]) return cache[full].exports;
  let code = fs.readFileSync(full, 'utf8');
  // import { a, b } from './x.js';   ->   const { a, b } = __require('./x.js');
  code = code.replace(/import\s*\{([^}]*)\}\s*from\s*['"]([^'"]+)['"]\s*;?/g,
    (m, names, from) => 'const {' + names + '} = __require(' + JSON.stringify(from) + ');');
  const module = { exports: {} };
  cache[full] = module;
  const fn = vm.runInThisContext('(function (module, exports, __require) {' + code + '\n})', { filename: full });
  fn(module, module.exports, (rel) => load(path.join(path.dirname(full), rel).slice(SRC.length + 1)));
  return module.exports;
}

const utils = load('utils.js');
const FN = {
  roundUpStrNum: utils.roundUpStrNum,
  formatSecondsAsTime: utils.formatSecondsAsTime,
  parseHms: utils.parseHms,
  isHandTiming: utils.isHandTiming,
  normalizeEventCode: utils.normalizeEventCode,
  tyrvingScore: load('tyrving_score.js').tyrvingScore,
  qkidsScore: load('qkids_score.js').qkidsScore
};

function enc(v) {
  if (typeof v === 'number' && !isFinite(v)) return { v: null, t: String(v) };
  if (v === undefined) return { v: null, t: 'undefined' };
  return { v: v };
}

const lines = fs.readFileSync(process.argv[3], 'utf8').split('\n');
const out = [];
for (const line of lines) {
  if (!line) continue;
  const job = JSON.parse(line);
  const f = FN[job.fn];
  const res = [];
  for (const args of job.args) {
    try {
      res.push(enc(f.apply(null, args)));
    } catch (e) {
      res.push({ e: String(e && e.message || e).slice(0, 120) });
    }
  }
  out.push(JSON.stringify(res));
}
fs.writeFileSync(process.argv[4], out.join('\n') + '\n');
